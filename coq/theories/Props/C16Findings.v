(* C16 - the five known finding classes, characterised (continuation of the last part of Props/C16.v; every proof is
   `exact <lemma>`, Proofs/ComplFindings*.v): the further theorems per class, then non-vacuity.
   The theorems applied to the valid program of Proofs/ComplFindingsEx.v, and the model evaluated there independently
   of the theorems: the classification [proc_spec] against `propose` at every white-space position of a procedure. *)
From Coq Require Import List PeanoNat NArith.
From Spl Require Import Model.Completion Proofs.CompletionProofs.
From Spl Require Import Spec.Grammar Spec.Typing.
From Spl Require Import Proofs.ComplValidBase Proofs.ComplValidProc Proofs.ComplValidNest Proofs.ComplValid Proofs.ComplValidTop Proofs.ComplValidEx.
From Spl Require Import Proofs.ComplFindingsSpec Proofs.ComplFindingsProc Proofs.ComplFindingsPath Proofs.ComplFindingsLex.
From Spl Require Import Proofs.ComplFindings Proofs.ComplFindingsClasses Proofs.ComplFindingsEx.
From Spl Require Import Props.C16.
Import ListNotations.
Local Open Scope nat_scope.

(* which tokens have one character: the punctuation has the length of its spelling, comments have two
   characters or more *)
Theorem C16_token_lengths : forall (t : text) (toks : list token),
  lex t = Some toks ->
  Forall (fun tok => match tk tok with
                     | LParen | RParen | LBracket | RBracket | LCurly | RCurly | Colon | Comma | Semic => te tok = (ts tok + 1)%N
                     | Assign => te tok = (ts tok + 2)%N
                     | Comment _ => (ts tok + 2 <= te tok)%N
                     | _ => True
                     end) toks.
Proof. exact lex_punctuation_lengths. Qed.
Print Assumptions C16_token_lengths.

(* directly behind `:=`: null (one column further, behind a blank, the answer is the variables) *)
Theorem C16_directly_behind_assign : forall (p : aprog) (G : gtable) (t : text) (toks : list token) (d : doc),
  prog_ok p = true -> well_typed (expected p) G ->
  lex t = Some toks -> map tk toks = flatten p ++ [Eof] -> new_doc_res t = ODone d ->
  forall l1 c1 c2 x c3 ps c4 c5 vs b1 s b2 c6 l2 g v ca e cb,
    a_decls p = l1 ++ DProc c1 c2 x c3 ps c4 c5 vs (sapp b1 (SCons s b2)) c6 :: l2 ->
    snest s g (SAsg v ca e cb) ->
    forall tprev line col,
      nth_error toks (stmt_index l1 c1 c2 x c3 ps c4 c5 vs b1 g + length (fl_var v) + length ca) = Some tprev ->
      get_insertion_index line col t = te tprev ->
      propose d line col = ROk None.
Proof. exact propose_behind_assign. Qed.
Print Assumptions C16_directly_behind_assign.

(* directly behind the `(` of a call, of an `if`, of a `while` ([head_paren s' q]: token q of s' is that `(`): null *)
Theorem C16_directly_behind_paren : forall (p : aprog) (G : gtable) (t : text) (toks : list token) (d : doc),
  prog_ok p = true -> well_typed (expected p) G ->
  lex t = Some toks -> map tk toks = flatten p ++ [Eof] -> new_doc_res t = ODone d ->
  forall l1 c1 c2 x c3 ps c4 c5 vs b1 s b2 c6 l2 g s',
    a_decls p = l1 ++ DProc c1 c2 x c3 ps c4 c5 vs (sapp b1 (SCons s b2)) c6 :: l2 ->
    snest s g s' ->
    forall q tprev line col,
      head_paren s' q ->
      nth_error toks (stmt_index l1 c1 c2 x c3 ps c4 c5 vs b1 g + q) = Some tprev ->
      get_insertion_index line col t = te tprev ->
      propose d line col = ROk None.
Proof. exact propose_behind_paren. Qed.
Print Assumptions C16_directly_behind_paren.

(* directly behind the `;` that ends an assignment or a call ([vars_from s' q]: s' is an assignment / a call, q
   the index of its `:=` / `(`): the position is inside that statement - the variables only, although it is
   the start of the next statement *)
Theorem C16_directly_behind_statement_semic : forall (p : aprog) (G : gtable) (t : text) (toks : list token) (d : doc),
  prog_ok p = true -> well_typed (expected p) G ->
  lex t = Some toks -> map tk toks = flatten p ++ [Eof] -> new_doc_res t = ODone d ->
  forall l1 c1 c2 x c3 ps c4 c5 vs b1 s b2 c6 l2 g s',
    a_decls p = l1 ++ DProc c1 c2 x c3 ps c4 c5 vs (sapp b1 (SCons s b2)) c6 :: l2 ->
    snest s g s' ->
    forall q tprev line col,
      vars_from s' q ->
      nth_error toks (stmt_index l1 c1 c2 x c3 ps c4 c5 vs b1 g + length (fl_stmt s') - 1) = Some tprev ->
      get_insertion_index line col t = te tprev ->
      exists pe, lookup G x = Some (GProcE pe) /\ map fst (pe_local pe) = aparams_names ps ++ map v_x vs /\
        propose d line col = ROk (Some (search_variables (pe_local pe))).
Proof. exact propose_behind_stmt_semic. Qed.
Print Assumptions C16_directly_behind_statement_semic.

(* directly behind the `{` (token |ca| of the block) or the `}` (its last token) of a block statement: the statement
   proposals - what C16 prescribes there - with the `else` starters in front in some cases ([else_or_not]) *)
Theorem C16_directly_behind_block_brace : forall (p : aprog) (G : gtable) (t : text) (toks : list token) (d : doc),
  prog_ok p = true -> well_typed (expected p) G ->
  lex t = Some toks -> map tk toks = flatten p ++ [Eof] -> new_doc_res t = ODone d ->
  forall l1 c1 c2 x c3 ps c4 c5 vs b1 s b2 c6 l2 g ca b cb,
    a_decls p = l1 ++ DProc c1 c2 x c3 ps c4 c5 vs (sapp b1 (SCons s b2)) c6 :: l2 ->
    snest s g (SBlk ca b cb) ->
    forall m tprev line col,
      m = length ca \/ m = length (fl_stmt (SBlk ca b cb)) - 1 ->
      nth_error toks (stmt_index l1 c1 c2 x c3 ps c4 c5 vs b1 g + m) = Some tprev ->
      get_insertion_index line col t = te tprev ->
      exists pe pre, lookup G x = Some (GProcE pe) /\ map fst (pe_local pe) = aparams_names ps ++ map v_x vs /\
        else_or_not pre /\ propose d line col = ROk (Some (pre ++ new_stmt (Some (pe_local pe)) G)).
Proof. exact propose_behind_block_brace. Qed.
Print Assumptions C16_directly_behind_block_brace.

(* directly behind the closing brace of a procedure whose body holds a statement other than `;`: still inside the
   procedure - the statement proposals with ITS variables, not the declaration starters *)
Theorem C16_directly_behind_procedure_end : forall (p : aprog) (G : gtable) (t : text) (toks : list token) (d : doc),
  prog_ok p = true -> well_typed (expected p) G ->
  lex t = Some toks -> map tk toks = flatten p ++ [Eof] -> new_doc_res t = ODone d ->
  forall l1 c1 c2 x c3 ps c4 c5 vs b c6 l2,
    a_decls p = l1 ++ DProc c1 c2 x c3 ps c4 c5 vs b c6 :: l2 ->
    forall tprev line col,
      has_real b = true ->
      nth_error toks (length (flat_map fl_decl l1) + length (fl_decl (DProc c1 c2 x c3 ps c4 c5 vs b c6)) - 1) = Some tprev ->
      get_insertion_index line col t = te tprev ->
      exists pe, lookup G x = Some (GProcE pe) /\ map fst (pe_local pe) = aparams_names ps ++ map v_x vs /\
        propose d line col = ROk (Some (new_stmt (Some (pe_local pe)) G)).
Proof. exact propose_behind_proc_rcurly. Qed.
Print Assumptions C16_directly_behind_procedure_end.

(* directly behind a token of the header, of the variable declarations or of the leading `;` statements (token m lies
   in front of the first statement other than `;`): the answer is read off the kind of `token_before` alone - behind
   `:` (one character: last is the identifier in front of it) null, behind `of` the types, behind `{` / `;` null
   ([sig_answer], [decl_answer]: see [C16_declaration_answers]) *)
Theorem C16_directly_behind_declaration_token : forall (p : aprog) (G : gtable) (t : text) (toks : list token) (d : doc),
  prog_ok p = true -> well_typed (expected p) G ->
  lex t = Some toks -> map tk toks = flatten p ++ [Eof] -> new_doc_res t = ODone d ->
  forall l1 c1 c2 x c3 ps c4 c5 vs b c6 l2,
    a_decls p = l1 ++ DProc c1 c2 x c3 ps c4 c5 vs b c6 :: l2 ->
    forall m tprev last line col,
      (length (flat_map fl_decl l1) <= m)%nat ->
      (m < length (flat_map fl_decl l1) + length (fl_decl (DProc c1 c2 x c3 ps c4 c5 vs b c6)))%nat ->
      match first_real b (length (flat_map fl_decl l1) + length (proc_head c1 c2 x c3 ps c4 c5) + length (flat_map fl_vardecl vs)) with
      | Some r => (m < r)%nat
      | None => True
      end ->
      nth_error toks m = Some tprev -> get_insertion_index line col t = te tprev ->
      ((ts tprev + 1 < te tprev)%N /\ last = tprev \/
       (ts tprev + 1 = te tprev)%N /\ (length (flat_map fl_decl l1) < m)%nat /\ nth_error toks (m - 1) = Some last) ->
      exists pe, lookup G x = Some (GProcE pe) /\ map fst (pe_local pe) = aparams_names ps ++ map v_x vs /\
        propose d line col =
          ROk (render (Some (pe_local pe)) G
                 (if m <? length (flat_map fl_decl l1) + length (proc_sig c1 c2 x c3 ps c4)
                  then sig_answer (tk last) else decl_answer (tk last))).
Proof. exact propose_behind_decl_part. Qed.
Print Assumptions C16_directly_behind_declaration_token.

Theorem C16_declaration_answers : forall k,
  sig_answer k = match k with LParen | Comma => ARef | Colon | KOf => ATypes | _ => ANull end /\
  decl_answer k = match k with Colon | KOf => ATypes | Semic | LCurly => AVarStmt | _ => ANull end.
Proof. exact (fun k => conj eq_refl eq_refl). Qed.
Print Assumptions C16_declaration_answers.

(* ... and directly behind a token of a TYPE declaration: the kind of `token_before` decides as in the gaps
   ([C16_type_decl_position]) - behind the `;` that ends the declaration last is the type name in front of it: null *)
Theorem C16_directly_behind_type_decl_token : forall (p : aprog) (G : gtable) (t : text) (toks : list token) (d : doc),
  prog_ok p = true -> well_typed (expected p) G ->
  lex t = Some toks -> map tk toks = flatten p ++ [Eof] -> new_doc_res t = ODone d ->
  forall l1 c1 c2 x c3 ty c4 l2,
    a_decls p = l1 ++ DType c1 c2 x c3 ty c4 :: l2 ->
    let dd := DType c1 c2 x c3 ty c4 in
    let D := length (flat_map fl_decl l1) in
    forall m tprev last line col,
      (D <= m)%nat -> (m < D + length (fl_decl dd))%nat ->
      nth_error toks m = Some tprev -> get_insertion_index line col t = te tprev ->
      ((ts tprev + 1 < te tprev)%N /\ last = tprev \/
       (ts tprev + 1 = te tprev)%N /\ (D < m)%nat /\ nth_error toks (m - 1) = Some last) ->
      propose d line col =
        ROk (match tk last with
             | RBracket => Some [item_of]
             | EqT | KOf => Some ([snip_array; item_array] ++ search_types G)
             | _ => None
             end).
Proof. exact propose_type_decl_behind. Qed.
Print Assumptions C16_directly_behind_type_decl_token.

(* type positions and everything else in front of the first statement other than `;` (header, variable declarations,
   leading `;`, the comments in front of the closing brace of a body without such a statement): null - behind
   `:` + comment no type is proposed *)
Theorem C16_comment_before_cursor_declaration : forall (p : aprog) (G : gtable) (t : text) (toks : list token) (d : doc),
  prog_ok p = true -> well_typed (expected p) G ->
  lex t = Some toks -> map tk toks = flatten p ++ [Eof] -> new_doc_res t = ODone d ->
  forall l1 c1 c2 x c3 ps c4 c5 vs b c6 l2,
    a_decls p = l1 ++ DProc c1 c2 x c3 ps c4 c5 vs b c6 :: l2 ->
    forall m tprev tnext line col,
      (length (flat_map fl_decl l1) <= m)%nat ->
      (S m < length (flat_map fl_decl l1) + length (fl_decl (DProc c1 c2 x c3 ps c4 c5 vs b c6)))%nat ->
      match first_real b (length (flat_map fl_decl l1) + length (proc_head c1 c2 x c3 ps c4 c5) + length (flat_map fl_vardecl vs)) with
      | Some r => (m < r)%nat
      | None => True
      end ->
      nth_error toks m = Some tprev -> nth_error toks (S m) = Some tnext -> is_comment (tk tprev) = true ->
      (te tprev <= get_insertion_index line col t)%N -> (get_insertion_index line col t <= ts tnext)%N ->
      propose d line col = ROk None.
Proof. exact propose_comment_decl_part. Qed.
Print Assumptions C16_comment_before_cursor_declaration.

(* behind a comment in front of the closing brace of the procedure (comment i of the slot c6): the statement
   proposals iff the body holds a statement other than `;` *)
Theorem C16_comment_before_cursor_procedure_end : forall (p : aprog) (G : gtable) (t : text) (toks : list token) (d : doc),
  prog_ok p = true -> well_typed (expected p) G ->
  lex t = Some toks -> map tk toks = flatten p ++ [Eof] -> new_doc_res t = ODone d ->
  forall l1 c1 c2 x c3 ps c4 c5 vs b c6 l2,
    a_decls p = l1 ++ DProc c1 c2 x c3 ps c4 c5 vs b c6 :: l2 ->
    let j := (length (flat_map fl_decl l1) + length (proc_head c1 c2 x c3 ps c4 c5) + length (flat_map fl_vardecl vs)
              + length (fl_stmts b))%nat in
    forall i tprev tnext line col,
      (i < length c6)%nat ->
      nth_error toks (j + i) = Some tprev -> nth_error toks (S (j + i)) = Some tnext ->
      (te tprev <= get_insertion_index line col t)%N -> (get_insertion_index line col t <= ts tnext)%N ->
      exists pe, lookup G x = Some (GProcE pe) /\ map fst (pe_local pe) = aparams_names ps ++ map v_x vs /\
        propose d line col = ROk (if has_real b then Some (new_stmt (Some (pe_local pe)) G) else None).
Proof. exact propose_comment_proc_end. Qed.
Print Assumptions C16_comment_before_cursor_procedure_end.

Theorem C16_text_start_blank : forall (p : aprog) (G : gtable) (t : text) (toks : list token) (d : doc),
  prog_ok p = true -> well_typed (expected p) G ->
  lex t = Some toks -> map tk toks = flatten p ++ [Eof] -> new_doc_res t = ODone d ->
  forall first line col,
    nth_error toks 0 = Some first -> (0 < ts first)%N -> get_insertion_index line col t = 0%N ->
    propose d line col = ROk (Some [snip_proc; snip_type; item_proc; item_type]).
Proof. exact propose_text_start_blank. Qed.
Print Assumptions C16_text_start_blank.

(* ... and the whole picture for assignments and calls: every gap between two tokens of the statement: null left of
   the `:=` / the `(` (token q), exactly the variables right of it - the EXPRESSION positions of C16 (the class
   PExpr of [position_class]), which the theorems (S), (S'), (T), (G) do not cover *)
Theorem C16_assignment_call_positions : forall (p : aprog) (G : gtable) (t : text) (toks : list token) (d : doc),
  prog_ok p = true -> well_typed (expected p) G ->
  lex t = Some toks -> map tk toks = flatten p ++ [Eof] -> new_doc_res t = ODone d ->
  forall l1 c1 c2 x c3 ps c4 c5 vs b1 s b2 c6 l2 g s',
    a_decls p = l1 ++ DProc c1 c2 x c3 ps c4 c5 vs (sapp b1 (SCons s b2)) c6 :: l2 ->
    snest s g s' ->
    forall q i tprev tnext line col,
      vars_from s' q ->
      (S i < length (fl_stmt s'))%nat ->
      nth_error toks (stmt_index l1 c1 c2 x c3 ps c4 c5 vs b1 g + i) = Some tprev ->
      nth_error toks (S (stmt_index l1 c1 c2 x c3 ps c4 c5 vs b1 g + i)) = Some tnext ->
      (te tprev < get_insertion_index line col t)%N -> (get_insertion_index line col t <= ts tnext)%N ->
      exists pe, lookup G x = Some (GProcE pe) /\ map fst (pe_local pe) = aparams_names ps ++ map v_x vs /\
        propose d line col = ROk (if i <? q then None else Some (search_variables (pe_local pe))).
Proof. exact propose_simple_stmt_position. Qed.
Print Assumptions C16_assignment_call_positions.

(* ---- non-vacuity: the theorems applied to the valid program of Proofs/ComplFindingsEx.v (byte index in front) ----
       0  type v = array [2] of int;
      27  proc p(ref a: v, n: int) { var i: //t
      65  int; //c
      74  i := n; if (i < 2) a[(i)] := i; else p(a, i); while (i < 2) i := i + 1; //d
     150  }
     152  proc main() { }
   tokens 0-9 the type declaration, 10-70 the procedure p: 10-22 its head, 23-28 the variable declaration (26 the
   comment //t), 29-33 `//c i := n;`, 34-56 the `if` (35 its `(`, 39 its `)`, 40-48 `a[(i)] := i;` with `:=` = 46,
   49 `else`, 50-56 `p(a, i);`), 57-68 the `while` (62 its `)`, 63-68 its body), 69 the comment //d, 70 `}`. *)
Definition fx_b1_if : astmts := SCons fx_s1 SNil.
Definition fx_b2_if : astmts := SCons fx_while SNil.
Definition fx_in_then : snest fx_if 6 fx_then := SN_ife_t cx0 cx0 fx_lt2 cx0 fx_then cx0 fx_else 0 fx_then (SN_here fx_then).
Definition fx_in_else : snest fx_if 16 fx_else := SN_ife_e cx0 cx0 fx_lt2 cx0 fx_then cx0 fx_else 0 fx_else (SN_here fx_else).

Example C16_findings_examples :
  match lex fx_text, new_doc_res fx_text with
  | Some toks, ODone d =>
      let vars_only line col :=
        exists items, propose d line col = ROk (Some items) /\ map it_label items = [sx_a; sx_n; sx_i] /\ filter is_var items = items in
      let stmt_items line col :=
        exists items, propose d line col = ROk (Some items) /\ length items = 19 /\
          map it_label (filter is_var items) = [sx_a; sx_n; sx_i] /\ length (filter is_fun items) = 12 in
      (* (4) 93: in front of the then-branch `a[(i)] := i;`, 111: in front of the else-branch `p(a, i);`,
             134: in front of the loop body `i := i + 1;`: the variables a, n, i and nothing else *)
      (forall line col, get_insertion_index line col fx_text = 93%N -> vars_only line col)
      /\ (forall line col, get_insertion_index line col fx_text = 111%N -> vars_only line col)
      /\ (forall line col, get_insertion_index line col fx_text = 134%N -> vars_only line col)
      (* (5) 100: between `a[(i)]` and `:=`: null; 103: behind `:= `: the variables *)
      /\ (forall line col, get_insertion_index line col fx_text = 100%N -> propose d line col = ROk None)
      /\ (forall line col, get_insertion_index line col fx_text = 103%N -> vars_only line col)
      (* (1) directly behind `:=` (102), behind the `(` of the call (113) and of the `if` (86): null *)
      /\ (forall line col, get_insertion_index line col fx_text = 102%N -> propose d line col = ROk None)
      /\ (forall line col, get_insertion_index line col fx_text = 113%N -> propose d line col = ROk None)
      /\ (forall line col, get_insertion_index line col fx_text = 86%N -> propose d line col = ROk None)
      (* (1) directly behind the `;` of `a[(i)] := i;` (105) and of `p(a, i);` (119): the variables only *)
      /\ (forall line col, get_insertion_index line col fx_text = 105%N -> vars_only line col)
      /\ (forall line col, get_insertion_index line col fx_text = 119%N -> vars_only line col)
      (* (1) directly behind the closing brace of p (151): the statement proposals of p *)
      /\ (forall line col, get_insertion_index line col fx_text = 151%N -> stmt_items line col)
      (* (1) directly behind the `:` of `var i:` (60): null *)
      /\ (forall line col, get_insertion_index line col fx_text = 60%N -> propose d line col = ROk None)
      (* (2) 74 = start of the line behind `//c`, in front of `i := n;`: null; 65 = start of the line behind
             `var i: //t`, in front of `int`: null (no type); 150 = start of the line behind `//d`, in front of
             the closing brace: the statement proposals *)
      /\ (forall line col, get_insertion_index line col fx_text = 74%N -> propose d line col = ROk None)
      /\ (forall line col, get_insertion_index line col fx_text = 65%N -> propose d line col = ROk None)
      /\ (forall line col, get_insertion_index line col fx_text = 150%N -> stmt_items line col)
      (* (3) 0: null *)
      /\ (forall line col, get_insertion_index line col fx_text = 0%N -> propose d line col = ROk None)
  | _, _ => False
  end.
Proof.
  destruct fx_layout as [Hok Hl].
  destruct (lex fx_text) as [toks|] eqn:El; [|contradiction].
  destruct (new_doc_res fx_text) as [d|s0|] eqn:Ed;
    [|vm_compute in Ed; discriminate Ed|vm_compute in Ed; discriminate Ed].
  assert (Et : toks = match lex fx_text with Some x => x | None => [] end) by now rewrite El.
  vm_compute in Et.
  cbv zeta. repeat split.
  - intros line col Hi.
    destruct (C16_branch_statement_start fx_p fx_table fx_text toks d Hok fx_well_typed El Hl Ed
                [cx_type] cx0 cx0 sx_p cx0 cx_params cx0 cx0 [fx_var] fx_b1_if fx_if fx_b2_if fx_cmt_d [cx_main] 0 fx_if
                eq_refl (SN_here fx_if) 6 (c16_tok RParen 91 92) (c16_tok (Ident sx_a) 93 94) line col
                (BS_ife_t cx0 cx0 fx_lt2 cx0 fx_then cx0 fx_else)
                ltac:(rewrite Et; reflexivity) ltac:(rewrite Et; reflexivity)
                ltac:(rewrite Hi; reflexivity) ltac:(rewrite Hi; vm_compute; discriminate))
      as (pe & Hlk & _ & Hp).
    vm_compute in Hlk. injection Hlk as <-. eexists. split; [exact Hp|]. split; reflexivity.
  - intros line col Hi.
    destruct (C16_branch_statement_start fx_p fx_table fx_text toks d Hok fx_well_typed El Hl Ed
                [cx_type] cx0 cx0 sx_p cx0 cx_params cx0 cx0 [fx_var] fx_b1_if fx_if fx_b2_if fx_cmt_d [cx_main] 0 fx_if
                eq_refl (SN_here fx_if) 16 (c16_tok KElse 106 110) (c16_tok (Ident sx_p) 111 112) line col
                (BS_ife_e cx0 cx0 fx_lt2 cx0 fx_then cx0 fx_else)
                ltac:(rewrite Et; reflexivity) ltac:(rewrite Et; reflexivity)
                ltac:(rewrite Hi; reflexivity) ltac:(rewrite Hi; vm_compute; discriminate))
      as (pe & Hlk & _ & Hp).
    vm_compute in Hlk. injection Hlk as <-. eexists. split; [exact Hp|]. split; reflexivity.
  - intros line col Hi.
    destruct (C16_branch_statement_start fx_p fx_table fx_text toks d Hok fx_well_typed El Hl Ed
                [cx_type] cx0 cx0 sx_p cx0 cx_params cx0 cx0 [fx_var] (SCons fx_s1 (SCons fx_if SNil)) fx_while SNil fx_cmt_d [cx_main] 0 fx_while
                eq_refl (SN_here fx_while) 6 (c16_tok RParen 132 133) (c16_tok (Ident sx_i) 134 135) line col
                (BS_whl cx0 cx0 fx_lt2 cx0 fx_body)
                ltac:(rewrite Et; reflexivity) ltac:(rewrite Et; reflexivity)
                ltac:(rewrite Hi; reflexivity) ltac:(rewrite Hi; vm_compute; discriminate))
      as (pe & Hlk & _ & Hp).
    vm_compute in Hlk. injection Hlk as <-. eexists. split; [exact Hp|]. split; reflexivity.
  - intros line col Hi.
    apply (C16_paren_left_of_assign fx_p fx_table fx_text toks d Hok fx_well_typed El Hl Ed
             [cx_type] cx0 cx0 sx_p cx0 cx_params cx0 cx0 [fx_var] fx_b1_if fx_if fx_b2_if fx_cmt_d [cx_main] 6
             _ _ _ _ eq_refl fx_in_then 5 (c16_tok RBracket 98 99) (c16_tok Assign 100 102) line col
             ltac:(apply Nat.leb_le; reflexivity) ltac:(rewrite Et; reflexivity) ltac:(rewrite Et; reflexivity)
             ltac:(rewrite Hi; reflexivity) ltac:(rewrite Hi; vm_compute; discriminate)).
  - intros line col Hi.
    destruct (C16_assignment_call_positions fx_p fx_table fx_text toks d Hok fx_well_typed El Hl Ed
                [cx_type] cx0 cx0 sx_p cx0 cx_params cx0 cx0 [fx_var] fx_b1_if fx_if fx_b2_if fx_cmt_d [cx_main] 6 fx_then
                eq_refl fx_in_then 6 6 (c16_tok Assign 100 102) (c16_tok (Ident sx_i) 103 104) line col
                (VF_asg _ _ _ _) ltac:(apply Nat.ltb_lt; reflexivity)
                ltac:(rewrite Et; reflexivity) ltac:(rewrite Et; reflexivity)
                ltac:(rewrite Hi; reflexivity) ltac:(rewrite Hi; vm_compute; discriminate))
      as (pe & Hlk & _ & Hp).
    vm_compute in Hlk. injection Hlk as <-. eexists. split; [exact Hp|]. split; reflexivity.
  - intros line col Hi.
    apply (C16_directly_behind_assign fx_p fx_table fx_text toks d Hok fx_well_typed El Hl Ed
             [cx_type] cx0 cx0 sx_p cx0 cx_params cx0 cx0 [fx_var] fx_b1_if fx_if fx_b2_if fx_cmt_d [cx_main] 6
             _ _ _ _ eq_refl fx_in_then (c16_tok Assign 100 102) line col
             ltac:(rewrite Et; reflexivity) ltac:(rewrite Hi; reflexivity)).
  - intros line col Hi.
    apply (C16_directly_behind_paren fx_p fx_table fx_text toks d Hok fx_well_typed El Hl Ed
             [cx_type] cx0 cx0 sx_p cx0 cx_params cx0 cx0 [fx_var] fx_b1_if fx_if fx_b2_if fx_cmt_d [cx_main] 16 fx_else
             eq_refl fx_in_else 1 (c16_tok LParen 112 113) line col (HP_cal _ _ _ _ _ _)
             ltac:(rewrite Et; reflexivity) ltac:(rewrite Hi; reflexivity)).
  - intros line col Hi.
    apply (C16_directly_behind_paren fx_p fx_table fx_text toks d Hok fx_well_typed El Hl Ed
             [cx_type] cx0 cx0 sx_p cx0 cx_params cx0 cx0 [fx_var] fx_b1_if fx_if fx_b2_if fx_cmt_d [cx_main] 0 fx_if
             eq_refl (SN_here fx_if) 1 (c16_tok LParen 85 86) line col (HP_ife _ _ _ _ _ _ _)
             ltac:(rewrite Et; reflexivity) ltac:(rewrite Hi; reflexivity)).
  - intros line col Hi.
    destruct (C16_directly_behind_statement_semic fx_p fx_table fx_text toks d Hok fx_well_typed El Hl Ed
                [cx_type] cx0 cx0 sx_p cx0 cx_params cx0 cx0 [fx_var] fx_b1_if fx_if fx_b2_if fx_cmt_d [cx_main] 6 fx_then
                eq_refl fx_in_then 6 (c16_tok Semic 104 105) line col (VF_asg _ _ _ _)
                ltac:(rewrite Et; reflexivity) ltac:(rewrite Hi; reflexivity))
      as (pe & Hlk & _ & Hp).
    vm_compute in Hlk. injection Hlk as <-. eexists. split; [exact Hp|]. split; reflexivity.
  - intros line col Hi.
    destruct (C16_directly_behind_statement_semic fx_p fx_table fx_text toks d Hok fx_well_typed El Hl Ed
                [cx_type] cx0 cx0 sx_p cx0 cx_params cx0 cx0 [fx_var] fx_b1_if fx_if fx_b2_if fx_cmt_d [cx_main] 16 fx_else
                eq_refl fx_in_else 1 (c16_tok Semic 118 119) line col (VF_cal _ _ _ _ _ _)
                ltac:(rewrite Et; reflexivity) ltac:(rewrite Hi; reflexivity))
      as (pe & Hlk & _ & Hp).
    vm_compute in Hlk. injection Hlk as <-. eexists. split; [exact Hp|]. split; reflexivity.
  - intros line col Hi.
    destruct (C16_directly_behind_procedure_end fx_p fx_table fx_text toks d Hok fx_well_typed El Hl Ed
                [cx_type] cx0 cx0 sx_p cx0 cx_params cx0 cx0 [fx_var] _ fx_cmt_d [cx_main]
                eq_refl (c16_tok RCurly 150 151) line col eq_refl
                ltac:(rewrite Et; reflexivity) ltac:(rewrite Hi; reflexivity))
      as (pe & Hlk & _ & Hp).
    vm_compute in Hlk. injection Hlk as <-. eexists. split; [exact Hp|]. repeat split; reflexivity.
  - intros line col Hi.
    destruct (C16_directly_behind_declaration_token fx_p fx_table fx_text toks d Hok fx_well_typed El Hl Ed
                [cx_type] cx0 cx0 sx_p cx0 cx_params cx0 cx0 [fx_var] _ fx_cmt_d [cx_main]
                eq_refl 25 (c16_tok Colon 59 60) (c16_tok (Ident sx_i) 58 59) line col
                ltac:(apply Nat.leb_le; reflexivity) ltac:(apply Nat.ltb_lt; reflexivity) ltac:(apply Nat.ltb_lt; reflexivity)
                ltac:(rewrite Et; reflexivity) ltac:(rewrite Hi; reflexivity)
                ltac:(right; split; [reflexivity | split; [apply Nat.ltb_lt; reflexivity | rewrite Et; reflexivity]]))
      as (pe & _ & _ & Hp).
    exact Hp.
  - intros line col Hi.
    destruct (C16_comment_before_cursor fx_p fx_table fx_text toks d Hok fx_well_typed El Hl Ed
                [cx_type] cx0 cx0 sx_p cx0 cx_params cx0 cx0 [fx_var] SNil fx_s1 (SCons fx_if (SCons fx_while SNil)) fx_cmt_d [cx_main] 0 fx_s1
                eq_refl (SN_here fx_s1) 0 (c16_tok (Comment [99%N]) 70 74) (c16_tok (Ident sx_i) 74 75) line col
                (or_intror eq_refl) ltac:(apply Nat.ltb_lt; reflexivity)
                ltac:(rewrite Et; reflexivity) ltac:(rewrite Et; reflexivity)
                ltac:(rewrite Hi; vm_compute; discriminate) ltac:(rewrite Hi; vm_compute; discriminate))
      as (pe & _ & _ & Hp).
    exact Hp.
  - intros line col Hi.
    apply (C16_comment_before_cursor_declaration fx_p fx_table fx_text toks d Hok fx_well_typed El Hl Ed
             [cx_type] cx0 cx0 sx_p cx0 cx_params cx0 cx0 [fx_var] _ fx_cmt_d [cx_main]
             eq_refl 26 (c16_tok (Comment [116%N]) 61 65) (c16_tok (Ident s_int) 65 68) line col
             ltac:(apply Nat.leb_le; reflexivity) ltac:(apply Nat.ltb_lt; reflexivity) ltac:(apply Nat.ltb_lt; reflexivity)
             ltac:(rewrite Et; reflexivity) ltac:(rewrite Et; reflexivity) eq_refl
             ltac:(rewrite Hi; vm_compute; discriminate) ltac:(rewrite Hi; vm_compute; discriminate)).
  - intros line col Hi.
    destruct (C16_comment_before_cursor_procedure_end fx_p fx_table fx_text toks d Hok fx_well_typed El Hl Ed
                [cx_type] cx0 cx0 sx_p cx0 cx_params cx0 cx0 [fx_var] _ fx_cmt_d [cx_main]
                eq_refl 0 (c16_tok (Comment [100%N]) 146 150) (c16_tok RCurly 150 151) line col
                ltac:(apply Nat.ltb_lt; reflexivity)
                ltac:(rewrite Et; reflexivity) ltac:(rewrite Et; reflexivity)
                ltac:(rewrite Hi; vm_compute; discriminate) ltac:(rewrite Hi; vm_compute; discriminate))
      as (pe & Hlk & _ & Hp).
    vm_compute in Hlk. injection Hlk as <-. eexists. split; [exact Hp|]. repeat split; reflexivity.
  - intros line col Hi.
    apply (C16_text_start fx_p fx_table fx_text toks d Hok fx_well_typed El Hl Ed (c16_tok KType 0 4) line col
             ltac:(rewrite Et; reflexivity) eq_refl Hi).
Qed.

(* ... and evaluated independently of the theorems: the classification [proc_spec] against `propose` at EVERY cursor
   index in the white space of the declaration of p (indices 31 .. 151: between two adjacent tokens of p or directly
   behind one, the closing brace included) - 93 positions *)
Fixpoint fx_line_col (t : text) (i : nat) (line col : N) : N * N :=
  match i, t with
  | S j, c :: r => if (c =? 10)%N then fx_line_col r j (line + 1)%N 0%N else fx_line_col r j line (col + 1)%N
  | _, _ => (line, col)
  end.

Definition fx_answer (c : nat) : option (option (list item)) :=
  match new_doc fx_text with
  | Done d => let (line, col) := fx_line_col fx_text c 0%N 0%N in
              match propose d line col with ROk r => Some r | RFail _ => None end
  | _ => None
  end.

Definition fx_same (a b : option (list item)) : bool :=
  match a, b with Some x, Some y => items_eqb x y | None, None => true | _, _ => false end.

(* Some true: white space of p and the answer is the classified one; Some false: it is not; None: c is no such position *)
Definition fx_classified (c : nat) : option bool :=
  match lex fx_text, lookup fx_table sx_p with
  | Some toks, Some (GProcE pe) =>
      let cN := N.of_nat c in
      let here m := match nth_error toks m, nth_error toks (S m) with
                    | Some a, Some b => (te a <=? cN)%N && (cN <=? ts b)%N
                    | _, _ => false
                    end in
      match find here (seq 10 61) with
      | Some m =>
          match nth_error toks m with
          | Some tprev =>
              let hi := if (te tprev <? cN)%N then S m else m in
              let last := if ((te tprev <? cN) || (ts tprev + 1 <? te tprev))%N then Some tprev else nth_error toks (m - 1) in
              if hi <? 71 then
                match last, fx_answer c with
                | Some l, Some r => Some (fx_same r (render (Some (pe_local pe)) fx_table (proc_spec 10 fx_proc m hi (tk l))))
                | _, _ => Some false
                end
              else None
          | None => None
          end
      | None => None
      end
  | _, _ => None
  end.

Example C16_classified_eval :
  let results := map fx_classified (seq 0 168) in
  forallb (fun r => match r with Some false => false | _ => true end) results = true
  /\ length (filter (fun r => match r with Some true => true | _ => false end) results) = 93.
Proof. vm_compute. split; reflexivity. Qed.

(* the answers themselves at the positions of [C16_findings_examples]: (number of items, of variables, of procedures) *)
Example C16_findings_examples_eval :
  map (fun c => option_map (option_map (fun l => (length l, length (filter is_var l), length (filter is_fun l)))) (fx_answer c))
      [0; 60; 65; 74; 86; 93; 100; 102; 103; 105; 111; 113; 119; 134; 150; 151]
  = [Some None; Some None; Some None; Some None; Some None; Some (Some (3, 3, 0)); Some None; Some None; Some (Some (3, 3, 0));
     Some (Some (3, 3, 0)); Some (Some (3, 3, 0)); Some None; Some (Some (3, 3, 0)); Some (Some (3, 3, 0));
     Some (Some (19, 3, 12)); Some (Some (19, 3, 12))].
Proof. vm_compute. reflexivity. Qed.
