(* C17 - folding ranges match procedure extents (lsp4spl/src/features/fold.rs, modelled in
   Model/Fold.v).  Statements only; the proofs are in Proofs/FoldProofs.v.

   What is proved here holds for ALL documents (no assumption that the text is a valid program):
     C17_wellformed           under the explicit predicate [fold_pre] the handler does not panic and
                              its ranges are well-formed (start <= end < number of lines, in order,
                              non-overlapping)
     C17_wellformed_new_doc   for documents built by the analysis pipeline the token half of the
                              predicate is a theorem (C06), only the tree half [tree_pre] is assumed
     C17_count, C17_extents   one range per procedure declaration OF THE TREE, in tree order, from
                              the line of the first non-comment token of the declaration's token
                              range to the line of the end of its last token
     C17_valid                THE property for syntactically valid programs: for every abstract program
                              of the grammar and every text that lexes to its token kinds (= every
                              layout), the ranges are (line of `proc`, line of the closing brace) per
                              procedure declaration in source order
     C17_wellformed_total     for EVERY text (valid program or not, any syntax errors) the analysed
                              document satisfies [fold_pre] (Proofs/TotalFold.v), hence the handler
                              answers and its ranges are well-formed - no hypothesis left
     C17_clean                the property for every document whose PARSE carries no diagnostic and whose
                              tokens carry no lexical error (table / semantic diagnostics allowed): by the
                              completeness of the parser (Proofs/CompleteProg.v [parse_complete]) the token
                              vector is derivable in the grammar, the parse is the mandated tree, and the
                              ranges are (line of `proc`, line of the closing brace) per procedure of the
                              derivation - C17_valid without naming an abstract program
     C17_clean_doc            the same for documents without any diagnostic ([clean_doc] of Spec/Nav.v)
   [fold_pre] / [tree_pre] are still evaluated by the judge on every document of the check. *)
From Coq Require Import String.
From Spl Require Import Model.Fold Spec.LspText Spec.Grammar Proofs.FoldProofs Proofs.FoldValid Proofs.TotalFold.
Local Open Scope string_scope.
Local Open Scope list_scope.
Local Open Scope N_scope.

(* "proc a() {" / "}" / doc comment + two procedures sharing a line / a procedure over three lines *)
Definition c17_text : text :=
  str "// d" ++ [10] ++ str "proc a() {" ++ [13; 10] ++ str "}" ++ [10] ++ str "type t = int; // x" ++ [10]
  ++ str "// doc" ++ [10] ++ str "proc" ++ [10] ++ str "b(){} proc main() {" ++ [10; 10] ++ str "}".

(* 1. well-formedness for every document that satisfies the explicit predicate *)
Theorem C17_wellformed : forall d : doc,
  fold_pre d = true ->
  exists rs, fold d = ROk rs /\ ranges_wf (nlines (d_text d)) 0 rs.
Proof. exact fold_wellformed. Qed.
Print Assumptions C17_wellformed.

Example C17_wellformed_ex :
  match new_doc_res c17_text with
  | ODone d => fold_pre d = true /\ fold d = ROk [(1, 2); (5, 6); (6, 8)] /\ nlines (d_text d) = 9
               /\ ranges_wf 9 0 [(1, 2); (5, 6); (6, 8)]
  | _ => False
  end.
Proof. vm_compute. repeat split; congruence. Qed.

(* 2. ... and for documents produced by AnalyzedSource::new only the tree half is a hypothesis *)
Theorem C17_wellformed_new_doc : forall (t : text) (d : doc),
  new_doc_res t = ODone d -> tree_pre d = true ->
  exists rs, fold d = ROk rs /\ ranges_wf (nlines t) 0 rs.
Proof. exact fold_wellformed_new_doc. Qed.
Print Assumptions C17_wellformed_new_doc.

(* ... and no hypothesis at all: the tree half holds for every parser output (Proofs/TotalFold.v) *)
Theorem C17_fold_pre_total : forall (t : text) (d : doc), new_doc_res t = ODone d -> fold_pre d = true.
Proof. exact new_doc_fold_pre. Qed.
Print Assumptions C17_fold_pre_total.

Theorem C17_wellformed_total : forall (t : text) (d : doc),
  new_doc_res t = ODone d ->
  exists rs, fold d = ROk rs /\ ranges_wf (nlines t) 0 rs.
Proof.
  intros t d H. destruct (fold_wellformed d (new_doc_fold_pre t d H)) as [rs [E W]].
  exists rs. split; [exact E|]. unfold new_doc_res in H.
  destruct (lex t) as [toks|]; [|discriminate H]. destruct (parse toks) as [p| |]; try discriminate H.
  destruct (build_res p) as [[p1 tb]|s]; [|discriminate H]. destruct (analyze_res p1 tb) as [p2|s]; [|discriminate H].
  injection H as <-. exact W.
Qed.
Print Assumptions C17_wellformed_total.

(* the predicate also holds on a text that is no program at all; the stray `}` do not produce ranges *)
Example C17_wellformed_new_doc_ex :
  match new_doc_res (str "} proc (" ++ [10] ++ str "proc p() { if" ++ [10] ++ str "} }") with
  | ODone d => tree_pre d = true /\ fold d = ROk [(0, 0); (1, 2)]
  | _ => False
  end.
Proof. vm_compute. split; reflexivity. Qed.

(* 3. exactly one range per procedure declaration of the tree ... *)
Theorem C17_count : forall (d : doc) rs,
  fold d = ROk rs -> length rs = length (filter is_proc (pg_decls (d_ast d))).
Proof. exact fold_count. Qed.
Print Assumptions C17_count.

(* 4. ... in tree order, from the line of the first non-comment token of the declaration's token
   range (for a parsed procedure: the `proc` keyword, its doc comments being the leading comments)
   to the line of the end of the last token of that range *)
Theorem C17_extents : forall (d : doc) rs,
  fold d = ROk rs -> Forall2 (extent_of d) (proc_ranges (pg_decls (d_ast d))) rs.
Proof. exact fold_extents. Qed.
Print Assumptions C17_extents.

Example C17_count_extents_ex :
  match new_doc_res c17_text with
  | ODone d =>
      length (filter is_proc (pg_decls (d_ast d))) = 3%nat
      /\ proc_ranges (pg_decls (d_ast d)) = [(0, 7); (12, 20); (20, 26)]%nat
      /\ map tk (firstn 3 (skipn 12 (d_toks d))) = [Comment (str " x"); Comment (str " doc"); KProc]
  | _ => False
  end.
Proof. vm_compute. repeat split; reflexivity. Qed.

(* 5. THE property for syntactically valid programs in any layout.
   p ranges over the abstract programs of the grammar (Spec/Grammar.v: a comment slot in front of
   every token; [prog_ok] = the dangling-else discipline), t over ALL texts that lex to p's token
   kinds - every layout of p: white space, line breaks, CR/LF conventions, comment texts and literal
   spellings are free.  [proc_spans 0 (a_decls p)] lists, per procedure declaration in source
   order, (index of its `proc` keyword = first token after the doc comments c1, index of its closing
   brace); [extent_rel] says the answer is (line of the start of the first, line of the end of the
   second).  The proof (Proofs/FoldValid.v) composes C04's round trip with the facts that table
   construction and semantic analysis leave ranges and offsets alone. *)
Definition C17_full_statement : Prop :=
  forall (p : aprog) (t : text) (toks : list token) (d : doc),
    prog_ok p = true -> lex t = Some toks -> map tk toks = flatten p ++ [Eof] ->
    new_doc_res t = ODone d ->
    exists rs, fold d = ROk rs /\ Forall2 (extent_rel t toks) (proc_spans 0 (a_decls p)) rs.

Theorem C17_valid : C17_full_statement.
Proof. exact fold_valid. Qed.
Print Assumptions C17_valid.

(* what [extent_rel] says, spelled out *)
Example C17_extent_rel_unfold : forall t toks span se,
  extent_rel t toks span se <->
  exists first last, nth_error toks (fst span) = Some first /\ nth_error toks (snd span) = Some last /\
                     tk first = KProc /\ tk last = RCurly /\
                     se = (line_of t (ts first), line_of t (te last)).
Proof. intros. reflexivity. Qed.

(* non-vacuity: "// d" / "proc a() {" / "}" / "type t = int;" / "proc main() {" / "" / "}" *)
Definition c17_prog : aprog :=
  {| a_decls := [ DProc [str " d"] [] (str "a") [] None [] [] [] SNil [];
                  DType [] [] (str "t") [] (TName [] (str "int")) [];
                  DProc [] [] (str "main") [] None [] [] [] SNil [] ];
     a_ceof := [] |}.
Definition c17_prog_text : text :=
  str "// d" ++ [10] ++ str "proc a() {" ++ [10] ++ str "}" ++ [10] ++ str "type t = int;" ++ [10]
  ++ str "proc main() {" ++ [10; 10] ++ str "}".

Example C17_valid_ex :
  prog_ok c17_prog = true
  /\ option_map (map tk) (lex c17_prog_text) = Some (flatten c17_prog ++ [Eof])
  /\ proc_spans 0 (a_decls c17_prog) = [(1, 6); (12, 17)]%nat
  /\ match new_doc_res c17_prog_text with
     | ODone d => fold d = ROk [(1, 2); (4, 6)]
     | _ => False
     end.
Proof. vm_compute. repeat split; reflexivity. Qed.

(* 6. ... in the wording "document without syntax error": the abstract program need not be given - a parse
   without diagnostic IS the parse of a derivation (Proofs/CompleteProg.v), provided no token carries a lexical
   error (an integer literal above u32 is not a token of the grammar; lexical errors are not part of the tree's
   diagnostics).  p0 is the tree the parser builds; table construction and semantic analysis may then attach
   any diagnostics (d_ast d is p0 with those). *)
From Spl Require Import Model.Parser Model.Errors Spec.Nav Proofs.CompleteFeatures.

Theorem C17_clean : forall (t : text) (toks : list token) (p0 : program) (d : doc),
  lex t = Some toks -> parse toks = Done p0 -> tree_errors p0 = [] ->
  forallb (fun tok => match terr tok with [] => true | _ => false end) toks = true ->
  new_doc_res t = ODone d ->
  exists p, prog_ok p = true /\ map tk toks = flatten p ++ [Eof] /\ p0 = expected p /\
    exists rs, fold d = ROk rs /\ Forall2 (extent_rel t toks) (proc_spans 0 (a_decls p)) rs.
Proof. exact fold_syntax_clean. Qed.
Print Assumptions C17_clean.

Theorem C17_clean_doc : forall (t : text) (d : doc), clean_doc t d ->
  exists p, prog_ok p = true /\ map tk (d_toks d) = flatten p ++ [Eof] /\ d_ast d = expected p /\
    exists rs, fold d = ROk rs /\ Forall2 (extent_rel t (d_toks d)) (proc_spans 0 (a_decls p)) rs.
Proof. exact fold_clean. Qed.
Print Assumptions C17_clean_doc.

(* non-vacuity: the valid example has no diagnostic at all; `proc a() { x := 1; }` LF `proc b() {` LF `}` parses
   without diagnostic and carries semantic ones (x undefined, main missing): C17_clean applies, C17_clean_doc not *)
Example C17_clean_ex :
  is_clean c17_prog_text = true /\
  let t := str "proc a() { x := 1; }" ++ [10] ++ str "proc b() {" ++ [10] ++ str "}" in
  match lex t, new_doc_res t with
  | Some toks, ODone d =>
      match parse toks with Done p0 => tree_errors p0 = [] | _ => False end /\
      forallb (fun tok => match terr tok with [] => true | _ => false end) toks = true /\
      is_clean t = false /\ fold d = ROk [(0, 0); (1, 2)]
  | _, _ => False
  end.
Proof. vm_compute. repeat split; reflexivity. Qed.
