(* C17 - folding ranges match procedure extents (lsp4spl/src/features/fold.rs, modelled in
   Model/Fold.v).  Statements only; the proofs are in Proofs/FoldProofs.v.

   What is proved here holds for ALL documents (no assumption that the text is a valid program):
     C17_wellformed           under the explicit predicate [fold_pre] the handler does not panic and
                              its ranges are well-formed (start <= end < number of lines, in order,
                              non-overlapping)
     C17_wellformed_new_doc   for documents built by the analysis pipeline the token half of the
                              predicate is a theorem (C06), only the tree half [tree_pre] is assumed
     C17_count, C17_extents   one range per procedure declaration OF THE TREE, in tree order, from
                              the line of the first non-comment token of the declaration's token
                              range to the line of the end of its last token
   [fold_pre] / [tree_pre] are evaluated by the judge on every document of the check (it must hold).
   The full property for syntactically valid programs is [C17_full_statement]; it is NOT proved
   here (see the remark there) and is validated by correspondence + oracle. *)
From Coq Require Import String.
From Spl Require Import Model.Fold Spec.LspText Spec.Grammar Proofs.FoldProofs.
Local Open Scope string_scope.
Local Open Scope list_scope.
Local Open Scope N_scope.

(* "proc a() {" / "}" / doc comment + two procedures sharing a line / a procedure over three lines *)
Definition c17_text : text :=
  str "// d" ++ [10] ++ str "proc a() {" ++ [13; 10] ++ str "}" ++ [10] ++ str "type t = int; // x" ++ [10]
  ++ str "// doc" ++ [10] ++ str "proc" ++ [10] ++ str "b(){} proc main() {" ++ [10; 10] ++ str "}".

(* 1. well-formedness for every document that satisfies the explicit predicate *)
Theorem C17_wellformed : forall d : doc,
  fold_pre d = true ->
  exists rs, fold d = ROk rs /\ ranges_wf (nlines (d_text d)) 0 rs.
Proof. exact fold_wellformed. Qed.
Print Assumptions C17_wellformed.

Example C17_wellformed_ex :
  match new_doc_res c17_text with
  | ODone d => fold_pre d = true /\ fold d = ROk [(1, 2); (5, 6); (6, 8)] /\ nlines (d_text d) = 9
               /\ ranges_wf 9 0 [(1, 2); (5, 6); (6, 8)]
  | _ => False
  end.
Proof. vm_compute. repeat split; congruence. Qed.

(* 2. ... and for documents produced by AnalyzedSource::new only the tree half is a hypothesis *)
Theorem C17_wellformed_new_doc : forall (t : text) (d : doc),
  new_doc_res t = ODone d -> tree_pre d = true ->
  exists rs, fold d = ROk rs /\ ranges_wf (nlines t) 0 rs.
Proof. exact fold_wellformed_new_doc. Qed.
Print Assumptions C17_wellformed_new_doc.

(* the predicate also holds on a text that is no program at all; the stray `}` do not produce ranges *)
Example C17_wellformed_new_doc_ex :
  match new_doc_res (str "} proc (" ++ [10] ++ str "proc p() { if" ++ [10] ++ str "} }") with
  | ODone d => tree_pre d = true /\ fold d = ROk [(0, 0); (1, 2)]
  | _ => False
  end.
Proof. vm_compute. split; reflexivity. Qed.

(* 3. exactly one range per procedure declaration of the tree ... *)
Theorem C17_count : forall (d : doc) rs,
  fold d = ROk rs -> length rs = length (filter is_proc (pg_decls (d_ast d))).
Proof. exact fold_count. Qed.
Print Assumptions C17_count.

(* 4. ... in tree order, from the line of the first non-comment token of the declaration's token
   range (for a parsed procedure: the `proc` keyword, its doc comments being the leading comments)
   to the line of the end of the last token of that range *)
Theorem C17_extents : forall (d : doc) rs,
  fold d = ROk rs -> Forall2 (extent_of d) (proc_ranges (pg_decls (d_ast d))) rs.
Proof. exact fold_extents. Qed.
Print Assumptions C17_extents.

Example C17_count_extents_ex :
  match new_doc_res c17_text with
  | ODone d =>
      length (filter is_proc (pg_decls (d_ast d))) = 3%nat
      /\ proc_ranges (pg_decls (d_ast d)) = [(0, 7); (12, 20); (20, 26)]%nat
      /\ map tk (firstn 3 (skipn 12 (d_toks d))) = [Comment (str " x"); Comment (str " doc"); KProc]
  | _ => False
  end.
Proof. vm_compute. repeat split; reflexivity. Qed.

(* ---- the full property for syntactically valid programs (NOT proved) ----
   For every abstract program p of the grammar (Spec/Grammar.v: comment slots in front of every
   token, [prog_ok] = dangling-else discipline) and every text t that lexes to p's token kinds - i.e.
   every layout of p - the folding ranges are, per procedure declaration in source order, the line
   of its `proc` keyword (the token after the doc comments c1) and the line of its closing brace.
   Proving it needs, on top of C04's round trip (parse = expected p), that table construction and
   semantic analysis leave the declarations' ranges and offsets alone. *)
Fixpoint proc_spans (o : nat) (l : list adecl) : list (nat * nat) :=
  match l with
  | [] => []
  | d :: r =>
      match d with
      | DProc c1 _ _ _ _ _ _ _ _ _ => [((o + length c1)%nat, (o + length (fl_decl d) - 1)%nat)]
      | DType _ _ _ _ _ _ => []
      end ++ proc_spans (o + length (fl_decl d)) r
  end.

Definition C17_full_statement : Prop :=
  forall (p : aprog) (t : text) (toks : list token) (d : doc),
    prog_ok p = true -> lex t = Some toks -> map tk toks = flatten p ++ [Eof] ->
    new_doc_res t = ODone d ->
    exists rs, fold d = ROk rs /\
      Forall2 (fun (span : nat * nat) (se : N * N) =>
                 exists first last, nth_error toks (fst span) = Some first /\ nth_error toks (snd span) = Some last /\
                                    tk first = KProc /\ tk last = RCurly /\
                                    se = (line_of t (ts first), line_of t (te last)))
              (proc_spans 0 (a_decls p)) rs.
