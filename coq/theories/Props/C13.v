(* C13 - find-references and rename cover exactly the occurrences of one binding.
   Statements only; the proofs are in Proofs/RefsProofs.v.

   [references d line col], [rename d line col], [prepare_rename d line col] (Model/Refs.v) transcribe
   the three handlers of lsp4spl/src/features/references.rs on an analysed document d: ROk None =
   `null`, ROk (Some ranges) = the ranges of the Locations / of the TextEdits (every edit carries
   the request's newName), RFail = the Rust code panics.

   The model follows /repo b909979: the cursor's identifier is resolved by its syntactic position
   ([resolve name ctx table gp], gp = [is_global_position cursor], Model/Cursor.v: the previous
   non-comment token is `proc`, `type`, `:` or `of`) - in a procedure context globally if gp, in the
   local table first otherwise; rename and prepareRename are null when the resolved entry is
   predefined ([is_predefined]; before: when the spelling was `int`).

   PROVED, for ALL documents d (any record of text / tokens / tree / table):  C13_robust,
   C13_no_identifier_no_answer, C13_predefined_not_renamed (replaces C13_int_not_renamed, which is
   false now and was a defect: a variable named `int` is renameable), C13_user_names_renamed,
   C13_same_name, C13_prepare_iff_rename (now without the well-formedness hypothesis),
   C13_prepare_null_rename_null, C13_no_context, C13_prepare_range, C13_references_in_rename,
   C13_rename_edits, C13_global_position, C13_local_wins.
   PROVED for every VALID program in every layout (the first half of the functional property):
   C13_valid - for every abstract program p of the grammar whose mandated tree is well-typed
   (Spec/Typing.v), every text that lexes to p's tokens, every identifier occurrence o of the tree
   (Spec/Nav.v [occurrences]) and every cursor position inside its token: references = the other
   occurrences bound to the same entity, rename = all of them (null for a predefined entity),
   prepareRename = the identifier's own range (null for a predefined entity) - the answers are even
   equal as lists, in the order of [occurrences]; C13_valid_text - the same for every rendering
   (Proofs/RenderProofs.v) of such a program.  This is C13_full_statement with its hypothesis "document
   without diagnostics" ([clean_doc]) replaced by "layout of a well-typed abstract program" (the
   formulation of C03_no_false_positive, C14_hover_valid, C15, C17_valid).  Proof: Proofs/RefsValidWalks.v
   (a walk under a name test = the occurrence list filtered), Proofs/RefsValidSem.v (on a well-typed tree
   "bound to the same entity" = "same key": role class, name, enclosing procedure for locals),
   Proofs/RefsValidKey.v (the walk the handler chooses collects exactly the occurrences with the key),
   Proofs/RefsValidModel.v (the handlers on a token vector in text order), Proofs/RefsValid.v (grammar:
   where the occurrences sit, distinct declarations have distinct tokens; assembly).
   PROVED (C13_full, at the end of this file): C13_full_statement in its formulation over [clean_doc] - on top of
   C13_valid it is the completeness of the front end (Proofs/CompleteFront.v front_end_complete: no diagnostic
   => the text is a layout of a well-typed abstract program; parser part Proofs/CompleteBase/Expr/Stmt/Prog.v,
   build/analyze part Proofs/CompleteSem.v).  Before b909979 it was refuted on the model by the
   witnesses of the findings C13-local-named-like-its-procedure, C13-type-use-shadowed-by-local,
   C13-rename-predefined-procedure and C13-local-named-int; on these four witnesses it HOLDS now
   (C13_repaired_witnesses_agree).
   The SECOND half (apply the edits of a rename to a fresh name: same diagnostics, the same occurrences bound
   together, renaming back restores the text; C13_roundtrip_statement = Spec/Nav.v roundtrip_statement), at the end
   of this file:
   PROVED  C13_roundtrip_valid - for every valid program in every layout (hypotheses of C13_valid), every
   occurrence o with a declaration except the procedure `main`, and every new name that is a valid identifier,
   spelled nowhere in the document and not predefined ([fresh_for]; Spec/Nav.v [fresh_name] implies it): the
   edited text t' is a layout of the well-typed abstract program p' (= p with the identifier tokens of the binding
   respelled), the server analyses it to that tree without any diagnostic, lexical errors do not appear, the
   occurrences correspond position by position and are bound together exactly as before, and rename at the
   same occurrence of t' with the old name returns edits that restore t.
   PROVED  C13_roundtrip - the same in the wording of roundtrip_statement (documents without diagnostics,
   [clean_doc], on both sides), by the completeness of the front end (Proofs/CompleteFront.v): roundtrip_statement
   with the one additional hypothesis "o is not the procedure main".
   REFUTED C13_roundtrip_statement itself (C13_roundtrip_statement_refuted, witness C13_roundtrip_main_witness):
   `proc main() {}` - rename on `main` to `m` is offered, the result `proc m() {}` gets the diagnostic
   MainIsMissing; prepareRename / rename do not refuse the procedure `main` (finding C13-rename-main).
   Proof: Proofs/RefsRoundText.v (the LSP text model: edits on the flagged pieces of a text, applied last first),
   Proofs/RefsRoundLex.v (lexer: respelling identifier tokens; needs "no literal directly in front of an identifier",
   Proofs/RefsRoundNoLit.v), Proofs/RefsRoundAsc.v (the walks list their identifiers in ascending token order, so the
   edits are the selected token ranges in text order), Proofs/RefsRoundDefs.v / RefsRoundAbs.v / RefsRoundOcc.v
   (renamings on abstract programs, trees, tables; expected (renamed p) = renamed (expected p); occurrences of a renamed
   tree), Proofs/RefsRoundTyping.v (alpha-renaming: renaming by name preserves Spec/Typing.v well_typed),
   Proofs/RefsRoundKey.v (the renaming of one binding is such a renaming by name; keys are preserved),
   Proofs/RefsRound.v (assembly), Proofs/RefsRoundClean.v (clean_doc wording, refutation for main). *)
From Coq Require Import Permutation.
From Spl Require Import Proofs.GrammarProofs Spec.Typing Proofs.TypingProofs Proofs.RenderProofs Proofs.PipelineText.
From Spl Require Props.C14.
From Spl Require Import Model.Goto Model.Refs Spec.Nav Proofs.GotoProofs Proofs.RefsProofs Proofs.RefsValid.
Import ListNotations.
Local Open Scope N_scope.

(* 1. never an error: on a document that satisfies Refs.nav_wf_b no handler panics *)
Theorem C13_robust : forall d line col,
  nav_wf_b d = true ->
  (exists o, references d line col = ROk o) /\ (exists o, rename d line col = ROk o)
  /\ (exists o, prepare_rename d line col = ROk o).
Proof. exact refs_robust. Qed.
Print Assumptions C13_robust.

(* 2. no identifier token under the cursor => no answer from any of the three requests *)
Theorem C13_no_identifier_no_answer : forall d line col cur,
  doc_cursor d line col = ROk cur -> cursor_ident cur = None ->
  references d line col = ROk None /\ rename d line col = ROk None /\ prepare_rename d line col = ROk None.
Proof. exact no_identifier_no_answer. Qed.
Print Assumptions C13_no_identifier_no_answer.

(* 3. predefined entities are never renamed: an identifier that resolves - by its position - to an
      entry named like a predefined type or procedure gets null from rename and prepareRename *)
Theorem C13_predefined_not_renamed : forall d line col cur name r ctx,
  doc_cursor d line col = ROk cur -> cursor_ident cur = Some (name, r) -> c_ctx cur = Some ctx ->
  is_predefined name ctx (d_table d) (is_global_position cur) = true ->
  rename d line col = ROk None /\ prepare_rename d line col = ROk None.
Proof. exact predefined_not_renamed. Qed.
Print Assumptions C13_predefined_not_renamed.

(* 3b. ... and only those: on a well-formed document every identifier inside a declaration with a
       table entry that does not resolve to a predefined entity is offered for renaming - also a
       parameter or variable spelled `int` or `printi` *)
Theorem C13_user_names_renamed : forall d line col cur name r ctx,
  nav_wf_b d = true ->
  doc_cursor d line col = ROk cur -> cursor_ident cur = Some (name, r) -> c_ctx cur = Some ctx ->
  is_predefined name ctx (d_table d) (is_global_position cur) = false ->
  (exists es, rename d line col = ROk (Some es)) /\ prepare_rename d line col = ROk (Some (pos_range r (d_text d))).
Proof. exact user_names_renamed. Qed.
Print Assumptions C13_user_names_renamed.

(* 4. every identifier node collected for the answer carries the name under the cursor *)
Theorem C13_same_name : forall name ctx p g gp i,
  In i (find_referenced_identifiers name ctx p g gp) -> id_val i = name.
Proof. exact same_name. Qed.
Print Assumptions C13_same_name.

(* 5. prepareRename is null exactly when rename is, with the cursor inside a declaration that has a
      table entry (always the case in a diagnostic-free program); no well-formedness needed *)
Theorem C13_prepare_iff_rename : forall d line col cur,
  doc_cursor d line col = ROk cur -> c_ctx cur <> None ->
  (prepare_rename d line col = ROk None <-> rename d line col = ROk None).
Proof. exact prepare_iff_rename. Qed.
Print Assumptions C13_prepare_iff_rename.

(* 5b. one direction holds at every position of every document: where prepareRename refuses, rename
       refuses *)
Theorem C13_prepare_null_rename_null : forall d line col,
  prepare_rename d line col = ROk None -> rename d line col = ROk None.
Proof. exact prepare_null_rename_null. Qed.
Print Assumptions C13_prepare_null_rename_null.

(* 5c. the other direction fails exactly outside every declaration with a table entry (error
       declarations, declarations without a name, redeclarations' leftovers - malformed documents):
       references and rename are null there, prepareRename still answers with the range of the
       identifier under the cursor - the predefined test needs a context *)
Theorem C13_no_context : forall d line col cur,
  doc_cursor d line col = ROk cur -> c_ctx cur = None ->
  references d line col = ROk None /\ rename d line col = ROk None
  /\ prepare_rename d line col = ROk (option_map (fun id => pos_range (snd id) (d_text d)) (cursor_ident cur)).
Proof. exact no_context. Qed.
Print Assumptions C13_no_context.

(* 6. what prepareRename returns is the range of the identifier token under the cursor, and that
      identifier does not resolve to a predefined entity *)
Theorem C13_prepare_range : forall d line col x,
  prepare_rename d line col = ROk (Some x) ->
  exists cur t name,
    doc_cursor d line col = ROk cur /\ In t (d_toks d) /\ tk t = Ident name
    /\ in_range (ts t, te t) (get_insertion_index line col (d_text d)) = true
    /\ x = pos_range (ts t, te t) (d_text d)
    /\ (forall ctx, c_ctx cur = Some ctx -> is_predefined name ctx (d_table d) (is_global_position cur) = false).
Proof. exact prepare_range. Qed.
Print Assumptions C13_prepare_range.

(* 7. every reference is one of the edits of rename (rename = references + the cursor's own
      occurrence, unless the identifier is predefined) *)
Theorem C13_references_in_rename : forall d line col rs,
  references d line col = ROk (Some rs) ->
  rename d line col = ROk None \/ exists es, rename d line col = ROk (Some es) /\ incl rs es.
Proof. exact references_in_rename. Qed.
Print Assumptions C13_references_in_rename.

(* 8. the edits of rename, one by one: each comes from an identifier node of the tree that carries
      the cursor's name, and is the position range of a token of the document *)
Theorem C13_rename_edits : forall d line col es,
  rename d line col = ROk (Some es) ->
  exists cur name r ctx,
    doc_cursor d line col = ROk cur /\ cursor_ident cur = Some (name, r) /\ c_ctx cur = Some ctx
    /\ is_predefined name ctx (d_table d) (is_global_position cur) = false
    /\ Forall2 (fun i e => id_val i = name
                           /\ exists x, ident_text_range (d_toks d) i = ROk x /\ e = pos_range x (d_text d))
               (find_referenced_identifiers name ctx (d_ast d) (d_table d) (is_global_position cur)) es
    /\ Forall (loc_of_token d) es.
Proof. exact rename_edits. Qed.
Print Assumptions C13_rename_edits.

(* 8b. resolution by syntactic position.  In a global position (the name of a global declaration, an
       identifier of a type expression) the locals of the enclosing procedure play no role: the
       identifier is looked up in the global table only and the occurrences of a variable are never
       collected *)
Theorem C13_global_position : forall name pe pe' p g,
  find_referenced_identifiers name (GProcE pe) p g true
  = match lookup g name with
    | Some (GTypeE _) => find_types name p
    | Some (GProcE _) => find_procs name p
    | None => []
    end
  /\ is_predefined name (GProcE pe) g true = is_predefined name (GProcE pe') g true.
Proof. intros. split; [apply referenced_global_position | apply predefined_global_position]. Qed.
Print Assumptions C13_global_position.

(* 8c. outside a global position a parameter or variable of the enclosing procedure wins, whatever
       else has its name (its own procedure, a type, a predefined procedure, `int`): its occurrences
       inside that procedure are collected, and it is not predefined *)
Theorem C13_local_wins : forall name pe p g le,
  lookup (pe_local pe) name = Some le ->
  find_referenced_identifiers name (GProcE pe) p g false = find_vars name (id_val (pe_name pe)) p
  /\ is_predefined name (GProcE pe) g false = false.
Proof. exact referenced_local. Qed.
Print Assumptions C13_local_wins.

(* 9. the full functional statement (Spec/Nav.v), first half: answers of the three requests.
      [same_entity]: bound to the same declaring occurrence (predefined entities: the same name);
      [spec_references]: the other occurrences of that entity; [spec_rename]: all of them, None for a
      predefined entity; [spec_prepare]: the occurrence's own range, None for a predefined entity. *)
Definition C13_full_statement : Prop := full_statement_refs.
Example C13_full_statement_unfold :
  C13_full_statement =
  (forall t d o l c,
     clean_doc t d -> In o (occurrences (d_ast d)) -> cursor_inside d o l c ->
     (exists rs, references d l c = ROk (Some rs) /\ Permutation rs (spec_references d o))
     /\ match spec_rename d o with
        | Some es' => exists es, rename d l c = ROk (Some es) /\ Permutation es es'
        | None => rename d l c = ROk None
        end
     /\ prepare_rename d l c = ROk (spec_prepare d o)).
Proof. reflexivity. Qed.

(* 9b. ... proved on VALID programs, in any layout.  p ranges over the abstract programs of the grammar
       (Spec/Grammar.v), G over the global tables that the declarative static semantics (Spec/Typing.v
       [well_typed]) accepts for the tree the grammar mandates, t over the texts that lex to p's token
       kinds, i.e. over all layouts of p; o over the identifier occurrences of the tree and (l, c) over the
       cursor positions inside o's token.  This is C13_full_statement with [clean_doc t d] replaced by
       "t is a layout of a well-typed abstract program" (the formulation of C14_hover_valid and C17_valid);
       what the former would need in addition is the completeness of the front end, which is not proved. *)
Theorem C13_valid : forall (p : aprog) (G : gtable) (t : text) (toks : list token) (d : doc),
  prog_ok p = true -> well_typed (expected p) G ->
  lex t = Some toks -> map tk toks = flatten p ++ [Eof] ->
  new_doc_res t = ODone d ->
  forall o l c, In o (occurrences (d_ast d)) -> cursor_inside d o l c ->
    (exists rs, references d l c = ROk (Some rs) /\ Permutation rs (spec_references d o))
    /\ match spec_rename d o with
       | Some es' => exists es, rename d l c = ROk (Some es) /\ Permutation es es'
       | None => rename d l c = ROk None
       end
    /\ prepare_rename d l c = ROk (spec_prepare d o).
Proof. exact refs_valid. Qed.
Print Assumptions C13_valid.

(* ... from text: every rendering of a valid abstract program (any white space gaps satisfying gaps_ok,
   comments in any token gap; Proofs/RenderProofs.v, Proofs/PipelineText.v, explained in Props/C04.v)
   is such a layout, and the analysis never fails on it *)
Theorem C13_valid_text : forall (p : aprog) (G : gtable) gaps (t : text),
  prog_ok p = true -> aprog_valid p = true -> gaps_ok (flatten p) gaps -> render_kinds (flatten p) gaps = Some t ->
  well_typed (expected p) G ->
  exists toks d, lex t = Some toks /\ map tk toks = flatten p ++ [Eof] /\ new_doc_res t = ODone d /\
  forall o l c, In o (occurrences (d_ast d)) -> cursor_inside d o l c ->
    (exists rs, references d l c = ROk (Some rs) /\ Permutation rs (spec_references d o))
    /\ match spec_rename d o with
       | Some es' => exists es, rename d l c = ROk (Some es) /\ Permutation es es'
       | None => rename d l c = ROk None
       end
    /\ prepare_rename d l c = ROk (spec_prepare d o).
Proof.
  intros p G gaps t Hok Hv Hg Hr Hwt. destruct (text_layout_of p gaps t Hv Hg Hr) as [toks [Hl Hk]].
  exists toks, {| d_text := t; d_toks := toks; d_ast := expected p; d_table := G |}.
  assert (Hd : new_doc_res t = ODone {| d_text := t; d_toks := toks; d_ast := expected p; d_table := G |}).
  { destruct (no_false_positive_tree _ _ (expected_clean p) Hwt) as [Hb [Ha _]].
    unfold new_doc_res. now rewrite Hl, (roundtrip p toks Hok Hk), Hb, Ha. }
  repeat split; try assumption; now apply (refs_valid p G t toks _ Hok Hwt Hl Hk Hd).
Qed.
Print Assumptions C13_valid_text.

(* non-vacuity of C13_valid: the valid program of Props/C14.v (its well-typedness and layout are proved
   there: C14_ex_well_typed, C14_ex_layout) -
     type t = int;
     // doc
     proc k(a: t) { var k: t; var t: t; t := a; k := t; }
     proc main() {}
   the procedure k declares a variable k and a variable t named like the type of its parameter; 14
   identifier occurrences.  The theorem applied to it ... *)
Example C13_valid_ex :
  match new_doc_res C14.c14_valid_text with
  | ODone d =>
      length (occurrences (d_ast d)) = 14%nat
      /\ forall o l c, In o (occurrences (d_ast d)) -> cursor_inside d o l c ->
           (exists rs, references d l c = ROk (Some rs) /\ Permutation rs (spec_references d o))
           /\ match spec_rename d o with
              | Some es' => exists es, rename d l c = ROk (Some es) /\ Permutation es es'
              | None => rename d l c = ROk None
              end
           /\ prepare_rename d l c = ROk (spec_prepare d o)
  | _ => False
  end.
Proof.
  destruct C14.C14_ex_layout as [Hok Hl].
  destruct (lex C14.c14_valid_text) as [toks|] eqn:El; [|contradiction].
  destruct (new_doc_res C14.c14_valid_text) as [d|s|] eqn:Ed;
    [|vm_compute in Ed; discriminate Ed|vm_compute in Ed; discriminate Ed].
  split; [|exact (C13_valid C14.c14_p C14.c14_table C14.c14_valid_text toks d Hok C14.C14_ex_well_typed El Hl Ed)].
  assert (Ed' : d = match new_doc_res C14.c14_valid_text with ODone x => x | _ => d end) by now rewrite Ed.
  rewrite Ed'. vm_compute. reflexivity.
Qed.

(* ... and evaluated independently of the theorem, at the first and the last column of every occurrence
   (as multisets); e.g. references on the variable t of `t := a` (2,35): its declaration and its use in
   `k := t`, not the type t; rename on the type t behind `a:` (2,10): the type declaration and its three
   uses; the type int (0,9) is predefined *)
Example C13_valid_eval :
  let d := doc_of C14.c14_valid_text in
  forallb (refs_agree_at d) (occurrences (d_ast d)) = true
  /\ references d 2 35 = ROk (Some [((2, 29), (2, 30)); ((2, 48), (2, 49))])
  /\ rename d 2 10 = ROk (Some [((0, 5), (0, 6)); ((2, 10), (2, 11)); ((2, 22), (2, 23)); ((2, 32), (2, 33))])
  /\ rename d 0 9 = ROk None /\ prepare_rename d 0 9 = ROk None.
Proof. vm_compute. repeat split. Qed.

(* 10. second half: applying a rename to a fresh name (edits applied with the text model of C08,
       Doc.apply_changes, last edit first).  The statement; proved for every binding but the procedure main and
       refuted for main at the end of this file (C13_roundtrip_valid, C13_roundtrip, C13_roundtrip_statement_refuted). *)
Definition C13_roundtrip_statement : Prop := roundtrip_statement.
Example C13_roundtrip_statement_unfold :
  C13_roundtrip_statement =
  (forall t d n o l c new es t',
     clean_doc t d -> nth_error (occurrences (d_ast d)) n = Some o -> binding (occurrences (d_ast d)) o <> None ->
     cursor_inside d o l c -> fresh_name d new ->
     rename d l c = ROk (Some es) -> apply_rename t es new = Some t' ->
     exists d',
       clean_doc t' d'
       /\ length (occurrences (d_ast d')) = length (occurrences (d_ast d))
       /\ (forall i j a b a' b',
             nth_error (occurrences (d_ast d)) i = Some a -> nth_error (occurrences (d_ast d)) j = Some b ->
             nth_error (occurrences (d_ast d')) i = Some a' -> nth_error (occurrences (d_ast d')) j = Some b' ->
             same_entity (occurrences (d_ast d')) a' b' = same_entity (occurrences (d_ast d)) a b)
       /\ (forall o' l' c',
             nth_error (occurrences (d_ast d')) n = Some o' -> cursor_inside d' o' l' c' ->
             exists es', rename d' l' c' = ROk (Some es') /\ apply_rename t' es' (o_name o) = Some t)).
Proof. reflexivity. Qed.

(* ---- non-vacuity ---- *)

(* the witnesses of the four repaired findings are diagnostic-free and well-formed *)
Example C13_witnesses_clean :
  is_clean witness_own_name = true /\ is_clean witness_type_name = true
  /\ is_clean witness_predefined = true /\ is_clean witness_int_variable = true
  /\ nav_wf_b (doc_of witness_predefined) = true /\ nav_wf_b (doc_of witness_int_variable) = true.
Proof. vm_compute. repeat split. Qed.

(* what the model answers on them now.  `proc f(f: int) { f := 1; } proc main() { f(2); }`: references
   on the parameter f (0,7) is its use (before b909979: header and call of the procedure), as the
   specification says; on the header's f (0,5) the call.  `type t = int; proc main() { var t: t; t := 1; }`:
   references on the type identifier (0,35) is the type declaration (before: the variable's occurrences).
   `proc main() { printi(1); printi(2); }`: rename / prepareRename on printi are null (before: two edits
   and a range); references still lists the other call.  `proc main() { var int: int; int := 1; }`:
   the variable `int` (0,28) is renamed at both occurrences (before: null); the type `int` (0,23) is not *)
Example C13_repaired_witness_answers :
  references (doc_of witness_own_name) 0 7 = ROk (Some [((0, 17), (0, 18))])
  /\ option_map (spec_references (doc_of witness_own_name)) (nth_error (occurrences (d_ast (doc_of witness_own_name))) 1)
     = Some [((0, 17), (0, 18))]
  /\ references (doc_of witness_own_name) 0 5 = ROk (Some [((0, 41), (0, 42))])
  /\ rename (doc_of witness_own_name) 0 17 = ROk (Some [((0, 7), (0, 8)); ((0, 17), (0, 18))])
  /\ references (doc_of witness_type_name) 0 35 = ROk (Some [((0, 5), (0, 6))])
  /\ references (doc_of witness_type_name) 0 38 = ROk (Some [((0, 32), (0, 33))])
  /\ rename (doc_of witness_predefined) 0 14 = ROk None
  /\ prepare_rename (doc_of witness_predefined) 0 14 = ROk None
  /\ references (doc_of witness_predefined) 0 14 = ROk (Some [((0, 25), (0, 31))])
  /\ rename (doc_of witness_int_variable) 0 28 = ROk (Some [((0, 18), (0, 21)); ((0, 28), (0, 31))])
  /\ prepare_rename (doc_of witness_int_variable) 0 28 = ROk (Some ((0, 28), (0, 31)))
  /\ rename (doc_of witness_int_variable) 0 23 = ROk None
  /\ prepare_rename (doc_of witness_int_variable) 0 23 = ROk None.
Proof. vm_compute. repeat split. Qed.

(* the instances of C13_full_statement on the four former counterexamples and on the collision program
   of Proofs/GotoProofs.v: at EVERY occurrence (6, 6, 3, 4, 35), first and last column, references /
   rename / prepareRename answer what the specification says (as multisets) *)
Example C13_repaired_witnesses_agree :
  let ok t := forallb (refs_agree_at (doc_of t)) (occurrences (d_ast (doc_of t))) in
  ok witness_own_name = true /\ ok witness_type_name = true /\ ok witness_predefined = true
  /\ ok witness_int_variable = true /\ ok witness_collisions = true
  /\ length (occurrences (d_ast (doc_of witness_predefined))) = 3%nat
  /\ length (occurrences (d_ast (doc_of witness_int_variable))) = 4%nat.
Proof. vm_compute. repeat split. Qed.

(* on the collision program (line 1: `proc f(ref f: t, t: int, ref g: t) { var int: int; var printi: u;
   f[t] := int; printi[0][1] := g[0]; }`, line 2: `proc g(x: int) { var a: t; var b: t; f(a, x, b);
   printi(x); } proc main() { g(1); }`): the parameter f (1,11) has one other occurrence, the procedure f
   (1,5) its call in g; the type t behind a colon (1,14) the five other occurrences of the TYPE t; the
   parameter t (1,17) its use; the variables `int` and `printi` are renamed, the type `int` (1,46) and
   the call of the predefined printi (2,49) are not; the parameter g of f (1,29) has its use, the
   procedure g (2,5) its call in main *)
Example C13_collision_answers :
  let d := doc_of witness_collisions in
  references d 1 11 = ROk (Some [((1, 66), (1, 67))]) /\ references d 1 5 = ROk (Some [((2, 37), (2, 38))])
  /\ references d 1 14 = ROk (Some [((0, 5), (0, 6)); ((0, 49), (0, 50)); ((1, 32), (1, 33)); ((2, 24), (2, 25)); ((2, 34), (2, 35))])
  /\ references d 1 17 = ROk (Some [((1, 68), (1, 69))])
  /\ rename d 1 41 = ROk (Some [((1, 41), (1, 44)); ((1, 74), (1, 77))]) /\ prepare_rename d 1 41 = ROk (Some ((1, 41), (1, 44)))
  /\ rename d 1 46 = ROk None /\ prepare_rename d 1 46 = ROk None
  /\ rename d 1 55 = ROk (Some [((1, 55), (1, 61)); ((1, 79), (1, 85))])
  /\ rename d 2 49 = ROk None /\ prepare_rename d 2 49 = ROk None
  /\ references d 1 29 = ROk (Some [((1, 95), (1, 96))]) /\ references d 2 5 = ROk (Some [((2, 76), (2, 77))]).
Proof. vm_compute. repeat split. Qed.

(* a program with the same names (a, i) in two procedures, uses inside index, negated and
   parenthesised expressions, arguments and conditions, a comment between an argument's comma and
   the identifier, LF and CRLF: diagnostic-free, well-formed, 33 identifier occurrences, and at the
   first and the last column of each the three handlers answer exactly what the specification
   says (as multisets); the four go-to handlers as well *)
Example C13_sample_agrees :
  is_clean sample_refs = true /\ nav_wf_b (doc_of sample_refs) = true
  /\ length (occurrences (d_ast (doc_of sample_refs))) = 33%nat
  /\ forallb (refs_agree_at (doc_of sample_refs)) (occurrences (d_ast (doc_of sample_refs))) = true
  /\ forallb (agrees_at (doc_of sample_refs)) (occurrences (d_ast (doc_of sample_refs))) = true.
Proof. vm_compute. repeat split. Qed.

(* references on the `i` of `a[i]` in g: the parameter, the uses in -k[(i)], after the comment,
   in the condition, in the index i - 1 and in (i) - and not the i of main; rename on main's `a` *)
Example C13_sample_answers :
  references (doc_of sample_refs) 1 54
  = ROk (Some [((1, 17), (1, 18)); ((1, 64), (1, 65)); ((2, 1), (2, 2)); ((2, 12), (2, 13));
               ((2, 24), (2, 25)); ((2, 35), (2, 36))])
  /\ rename (doc_of sample_refs) 3 18 = ROk (Some [((3, 18), (3, 19)); ((3, 38), (3, 39))])
  /\ prepare_rename (doc_of sample_refs) 3 18 = ROk (Some ((3, 18), (3, 19)))
  /\ prepare_rename (doc_of sample_refs) 3 19 = ROk None.
Proof. vm_compute. repeat split. Qed.

(* an instance of the round trip: renaming main's `a` to `fresh` and back *)
Example C13_roundtrip_instance :
  match rename (doc_of sample_refs) 3 18 with
  | ROk (Some es) =>
      match apply_rename sample_refs es [102; 114; 101; 115; 104] with
      | Some t' =>
          is_clean t' = true
          /\ match rename (doc_of t') 3 18 with
             | ROk (Some es') => apply_rename t' es' [97] = Some sample_refs /\ length es' = 2%nat
             | _ => False
             end
      | None => False
      end
  | _ => False
  end.
Proof. vm_compute. repeat split. Qed.

(* the full functional statement (first half of the property) for every document without diagnostics: by the
   completeness of the front end (Proofs/CompleteFront.v, front_end_complete) such a document is the document
   of a layout of a well-typed abstract program, so C13_valid (refs_valid) applies *)
From Spl Require Proofs.CompleteFront.
Theorem C13_full : C13_full_statement.
Proof. exact CompleteFront.full_statement_refs_holds. Qed.
Print Assumptions C13_full.

(* 10b. the second half, proved on VALID programs in any layout (p, G, t, toks, d as in C13_valid): for the n-th
        occurrence o, bound to a declaration, not the procedure main; new fresh ([fresh_for]: a valid identifier
        that is no keyword, no token of the document, not predefined); es = the edits rename returns at a cursor
        position inside o's token; t' = the text after the edits.  Then t' is a layout of a well-typed abstract
        program p' again, analysed to d' = (t', toks', expected p', G') without diagnostic, without new lexical
        errors; the occurrences of d' correspond to those of d position by position and are bound together alike;
        rename at the n-th occurrence of d' with the old name gives edits that turn t' back into t. *)
From Spl Require Proofs.RefsRound Proofs.RefsRoundClean.
Theorem C13_roundtrip_valid : forall (p : aprog) (G : gtable) (t : text) (toks : list token) (d : doc) n o l c new es t',
  prog_ok p = true -> well_typed (expected p) G ->
  lex t = Some toks -> map tk toks = flatten p ++ [Eof] ->
  new_doc_res t = ODone d ->
  nth_error (occurrences (d_ast d)) n = Some o -> binding (occurrences (d_ast d)) o <> None ->
  cursor_inside d o l c -> RefsRound.fresh_for (d_toks d) new ->
  ~ ((o_role o = RProcDecl \/ o_role o = RCall) /\ o_name o = s_main) ->
  rename d l c = ROk (Some es) -> apply_rename t es new = Some t' ->
  exists (p' : aprog) (G' : gtable) (toks' : list token) (d' : doc),
    prog_ok p' = true /\ well_typed (expected p') G' /\ lex t' = Some toks' /\ map tk toks' = flatten p' ++ [Eof]
    /\ new_doc_res t' = ODone d' /\ doc_errors_res d' = ROk []
    /\ (Forall (fun x => terr x = []) (d_toks d) -> Forall (fun x => terr x = []) (d_toks d'))
    /\ length (occurrences (d_ast d')) = length (occurrences (d_ast d))
    /\ (forall i j a b a' b',
          nth_error (occurrences (d_ast d)) i = Some a -> nth_error (occurrences (d_ast d)) j = Some b ->
          nth_error (occurrences (d_ast d')) i = Some a' -> nth_error (occurrences (d_ast d')) j = Some b' ->
          same_entity (occurrences (d_ast d')) a' b' = same_entity (occurrences (d_ast d)) a b)
    /\ (forall o' l' c',
          nth_error (occurrences (d_ast d')) n = Some o' -> cursor_inside d' o' l' c' ->
          exists es', rename d' l' c' = ROk (Some es') /\ apply_rename t' es' (o_name o) = Some t).
Proof. exact RefsRound.roundtrip_valid. Qed.
Print Assumptions C13_roundtrip_valid.

Example C13_fresh_for_unfold : forall toks new,
  RefsRound.fresh_for toks new =
  (FormatProofs.ident_ok new /\ (forall tok, In tok toks -> tk tok <> Ident new)
   /\ existsb (text_eqb new) default_entries = false).
Proof. reflexivity. Qed.

(* the freshness condition of Spec/Nav.v implies the one used above *)
Theorem C13_fresh_name_for : forall d new, fresh_name d new -> RefsRound.fresh_for (d_toks d) new.
Proof. exact RefsRoundClean.fresh_name_for. Qed.
Print Assumptions C13_fresh_name_for.

(* 10c. ... and in the wording of C13_roundtrip_statement (documents without diagnostics on both sides): the
        statement holds with the additional hypothesis that o is not the procedure main *)
Theorem C13_roundtrip : forall t d n o l c new es t',
  clean_doc t d -> nth_error (occurrences (d_ast d)) n = Some o -> binding (occurrences (d_ast d)) o <> None ->
  cursor_inside d o l c -> fresh_name d new ->
  ~ ((o_role o = RProcDecl \/ o_role o = RCall) /\ o_name o = s_main) ->
  rename d l c = ROk (Some es) -> apply_rename t es new = Some t' ->
  exists d',
    clean_doc t' d'
    /\ length (occurrences (d_ast d')) = length (occurrences (d_ast d))
    /\ (forall i j a b a' b',
          nth_error (occurrences (d_ast d)) i = Some a -> nth_error (occurrences (d_ast d)) j = Some b ->
          nth_error (occurrences (d_ast d')) i = Some a' -> nth_error (occurrences (d_ast d')) j = Some b' ->
          same_entity (occurrences (d_ast d')) a' b' = same_entity (occurrences (d_ast d)) a b)
    /\ (forall o' l' c',
          nth_error (occurrences (d_ast d')) n = Some o' -> cursor_inside d' o' l' c' ->
          exists es', rename d' l' c' = ROk (Some es') /\ apply_rename t' es' (o_name o) = Some t).
Proof. exact RefsRoundClean.roundtrip_clean. Qed.
Print Assumptions C13_roundtrip.

(* 10d. without that hypothesis the statement is false: renaming the procedure main is offered and breaks the
        program (finding C13-rename-main) *)
Example C13_roundtrip_main_witness :
  let w := RefsRoundClean.witness_main in
  is_clean w = true
  /\ map (fun o => (o_role o, o_name o)) (occurrences (d_ast (doc_of w))) = [(RProcDecl, s_main)]
  /\ prepare_rename (doc_of w) 0 5 = ROk (Some ((0, 5), (0, 9)))
  /\ rename (doc_of w) 0 5 = ROk (Some [((0, 5), (0, 9))])
  /\ apply_rename w [((0, 5), (0, 9))] [109] = Some RefsRoundClean.witness_main_renamed
  /\ doc_errors_res (doc_of RefsRoundClean.witness_main_renamed) = ROk [(4, 4, EBuild MainIsMissing)].
Proof. vm_compute. repeat split. Qed.

Theorem C13_roundtrip_statement_refuted : ~ C13_roundtrip_statement.
Proof. exact RefsRoundClean.roundtrip_statement_refuted. Qed.
Print Assumptions C13_roundtrip_statement_refuted.
