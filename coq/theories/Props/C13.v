(* C13 - find-references and rename cover exactly the occurrences of one binding.
   Statements only; the proofs are in Proofs/RefsProofs.v.

   [references d line col], [rename d line col], [prepare_rename d line col] (Model/Refs.v) transcribe
   the three handlers of lsp4spl/src/features/references.rs on an analysed document d: ROk None =
   `null`, ROk (Some ranges) = the ranges of the Locations / of the TextEdits (every edit carries
   the request's newName), RFail = the Rust code panics.

   PROVED, for ALL documents d (any record of text / tokens / tree / table):  C13_robust,
   C13_no_identifier_no_answer, C13_int_not_renamed, C13_same_name, C13_prepare_iff_rename,
   C13_prepare_range, C13_references_in_rename, C13_rename_edits.
   STATED AND REFUTED ON THE MODEL: C13_full_statement (references / rename / prepareRename read
   formally over the syntactic occurrences and bindings of Proofs/GotoProofs.v); the four
   refutations are the witnesses of the known findings C13-local-named-like-its-procedure,
   C13-type-use-shadowed-by-local, C13-rename-predefined-procedure and C13-local-named-int.
   STATED ONLY: C13_roundtrip_statement (apply the edits, same diagnostics, same bindings, rename
   back).  Outside the four classes both are validated by the check (correspondence + oracle with
   an independent edit model on the real server), not proved. *)
From Coq Require Import Permutation.
From Spl Require Import Model.Goto Model.Refs Proofs.GotoProofs Proofs.RefsProofs.
Import ListNotations.
Local Open Scope N_scope.

(* 1. never an error: on a document that satisfies Refs.nav_wf_b no handler panics *)
Theorem C13_robust : forall d line col,
  nav_wf_b d = true ->
  (exists o, references d line col = ROk o) /\ (exists o, rename d line col = ROk o)
  /\ (exists o, prepare_rename d line col = ROk o).
Proof. exact refs_robust. Qed.
Print Assumptions C13_robust.

(* 2. no identifier token under the cursor => no answer from any of the three requests *)
Theorem C13_no_identifier_no_answer : forall d line col cur,
  doc_cursor d line col = ROk cur -> cursor_ident cur = None ->
  references d line col = ROk None /\ rename d line col = ROk None /\ prepare_rename d line col = ROk None.
Proof. exact no_identifier_no_answer. Qed.
Print Assumptions C13_no_identifier_no_answer.

(* 3. the identifier `int` is never renamed *)
Theorem C13_int_not_renamed : forall d line col cur r,
  doc_cursor d line col = ROk cur -> cursor_ident cur = Some (s_int, r) ->
  rename d line col = ROk None /\ prepare_rename d line col = ROk None.
Proof. exact int_not_renamed. Qed.
Print Assumptions C13_int_not_renamed.

(* 4. every identifier node collected for the answer carries the name under the cursor *)
Theorem C13_same_name : forall name ctx p g i,
  In i (find_referenced_identifiers name ctx p g) -> id_val i = name.
Proof. exact same_name. Qed.
Print Assumptions C13_same_name.

(* 5. prepareRename answers exactly when rename does (well-formed document, cursor inside a
      declaration that has a table entry) *)
Theorem C13_prepare_iff_rename : forall d line col cur,
  nav_wf_b d = true -> doc_cursor d line col = ROk cur -> c_ctx cur <> None ->
  (prepare_rename d line col = ROk None <-> rename d line col = ROk None).
Proof. exact prepare_iff_rename. Qed.
Print Assumptions C13_prepare_iff_rename.

(* 6. ... and what it returns is the range of the identifier token under the cursor *)
Theorem C13_prepare_range : forall d line col x,
  prepare_rename d line col = ROk (Some x) ->
  exists t name, In t (d_toks d) /\ tk t = Ident name /\ name <> s_int
                 /\ in_range (ts t, te t) (get_insertion_index line col (d_text d)) = true
                 /\ x = pos_range (ts t, te t) (d_text d).
Proof. exact prepare_range. Qed.
Print Assumptions C13_prepare_range.

(* 7. every reference is one of the edits of rename (rename = references + the cursor's own
      occurrence, unless the name is `int`) *)
Theorem C13_references_in_rename : forall d line col rs,
  references d line col = ROk (Some rs) ->
  rename d line col = ROk None \/ exists es, rename d line col = ROk (Some es) /\ incl rs es.
Proof. exact references_in_rename. Qed.
Print Assumptions C13_references_in_rename.

(* 8. the edits of rename, one by one: each comes from an identifier node of the tree that carries
      the cursor's name, and is the position range of a token of the document *)
Theorem C13_rename_edits : forall d line col es,
  rename d line col = ROk (Some es) ->
  exists cur name r ctx,
    doc_cursor d line col = ROk cur /\ cursor_ident cur = Some (name, r) /\ c_ctx cur = Some ctx
    /\ Forall2 (fun i e => id_val i = name
                           /\ exists x, ident_text_range (d_toks d) i = ROk x /\ e = pos_range x (d_text d))
               (find_referenced_identifiers name ctx (d_ast d) (d_table d)) es
    /\ Forall (loc_of_token d) es.
Proof. exact rename_edits. Qed.
Print Assumptions C13_rename_edits.

(* 9. the full functional statement, first half: answers of the three requests.
      [same_entity]: bound to the same declaring occurrence (predefined entities: the same name);
      [spec_references]: the other occurrences of that entity; [spec_rename]: all of them, None for a
      predefined entity; [spec_prepare]: the occurrence's own range, None for a predefined entity. *)
Definition C13_full_statement : Prop := full_statement_refs.
Example C13_full_statement_unfold :
  C13_full_statement =
  (forall t d o l c,
     clean_doc t d -> In o (occurrences (d_ast d)) -> cursor_inside d o l c ->
     (exists rs, references d l c = ROk (Some rs) /\ Permutation rs (spec_references d o))
     /\ match spec_rename d o with
        | Some es' => exists es, rename d l c = ROk (Some es) /\ Permutation es es'
        | None => rename d l c = ROk None
        end
     /\ prepare_rename d l c = ROk (spec_prepare d o)).
Proof. reflexivity. Qed.

(* refuted by `proc f(f: int) { f := 1; } proc main() { f(2); }`: references on the parameter f
   answers with the header and the call of the procedure f *)
Theorem C13_full_statement_refuted : ~ C13_full_statement.
Proof. exact full_statement_refs_refuted. Qed.
Print Assumptions C13_full_statement_refuted.

(* by `type t = int; proc main() { var t: t; t := 1; }`: references on the type identifier t
   answers with the occurrences of the variable t *)
Theorem C13_full_statement_refuted_by_type_name : ~ C13_full_statement.
Proof. exact full_statement_refs_refuted_type_name. Qed.
Print Assumptions C13_full_statement_refuted_by_type_name.

(* by `proc main() { printi(1); printi(2); }`: rename is offered on the predefined procedure *)
Theorem C13_full_statement_refuted_by_predefined : ~ C13_full_statement.
Proof. exact full_statement_refs_refuted_predefined. Qed.
Print Assumptions C13_full_statement_refuted_by_predefined.

(* by `proc main() { var int: int; int := 1; }`: the variable named int cannot be renamed *)
Theorem C13_full_statement_refuted_by_int_variable : ~ C13_full_statement.
Proof. exact full_statement_refs_refuted_int_variable. Qed.
Print Assumptions C13_full_statement_refuted_by_int_variable.

(* 10. second half: applying a rename to a fresh name (edits applied with the text model of C08,
       Doc.apply_changes, last edit first).  Stated, not proved. *)
Definition C13_roundtrip_statement : Prop := roundtrip_statement.
Example C13_roundtrip_statement_unfold :
  C13_roundtrip_statement =
  (forall t d n o l c new es t',
     clean_doc t d -> nth_error (occurrences (d_ast d)) n = Some o -> binding (occurrences (d_ast d)) o <> None ->
     cursor_inside d o l c -> fresh_name d new ->
     rename d l c = ROk (Some es) -> apply_rename t es new = Some t' ->
     exists d',
       clean_doc t' d'
       /\ length (occurrences (d_ast d')) = length (occurrences (d_ast d))
       /\ (forall i j a b a' b',
             nth_error (occurrences (d_ast d)) i = Some a -> nth_error (occurrences (d_ast d)) j = Some b ->
             nth_error (occurrences (d_ast d')) i = Some a' -> nth_error (occurrences (d_ast d')) j = Some b' ->
             same_entity (occurrences (d_ast d')) a' b' = same_entity (occurrences (d_ast d)) a b)
       /\ (forall o' l' c',
             nth_error (occurrences (d_ast d')) n = Some o' -> cursor_inside d' o' l' c' ->
             exists es', rename d' l' c' = ROk (Some es') /\ apply_rename t' es' (o_name o) = Some t)).
Proof. reflexivity. Qed.

(* ---- non-vacuity ---- *)

(* the witnesses are diagnostic-free and well-formed *)
Example C13_witnesses_clean :
  is_clean witness_own_name = true /\ is_clean witness_type_name = true
  /\ is_clean witness_predefined = true /\ is_clean witness_int_variable = true
  /\ nav_wf_b (doc_of witness_predefined) = true /\ nav_wf_b (doc_of witness_int_variable) = true.
Proof. vm_compute. repeat split. Qed.

(* what the model answers on them *)
Example C13_witness_answers :
  references (doc_of witness_own_name) 0 7 = ROk (Some [((0, 5), (0, 6)); ((0, 41), (0, 42))])
  /\ option_map (spec_references (doc_of witness_own_name)) (nth_error (occurrences (d_ast (doc_of witness_own_name))) 1)
     = Some [((0, 17), (0, 18))]
  /\ rename (doc_of witness_predefined) 0 14 = ROk (Some [((0, 14), (0, 20)); ((0, 25), (0, 31))])
  /\ prepare_rename (doc_of witness_predefined) 0 14 = ROk (Some ((0, 14), (0, 20)))
  /\ rename (doc_of witness_int_variable) 0 28 = ROk None
  /\ references (doc_of witness_int_variable) 0 28 = ROk (Some [((0, 18), (0, 21))]).
Proof. vm_compute. repeat split. Qed.

(* a program with the same names (a, i) in two procedures, uses inside index, negated and
   parenthesised expressions, arguments and conditions, a comment between an argument's comma and
   the identifier, LF and CRLF: diagnostic-free, well-formed, 33 identifier occurrences, and at the
   first and the last column of each the three handlers answer exactly what the specification
   says (as multisets); the four go-to handlers as well *)
Example C13_sample_agrees :
  is_clean sample_refs = true /\ nav_wf_b (doc_of sample_refs) = true
  /\ length (occurrences (d_ast (doc_of sample_refs))) = 33%nat
  /\ forallb (refs_agree_at (doc_of sample_refs)) (occurrences (d_ast (doc_of sample_refs))) = true
  /\ forallb (agrees_at (doc_of sample_refs)) (occurrences (d_ast (doc_of sample_refs))) = true.
Proof. vm_compute. repeat split. Qed.

(* references on the `i` of `a[i]` in g: the parameter, the uses in -k[(i)], after the comment,
   in the condition, in the index i - 1 and in (i) - and not the i of main; rename on main's `a` *)
Example C13_sample_answers :
  references (doc_of sample_refs) 1 54
  = ROk (Some [((1, 17), (1, 18)); ((1, 64), (1, 65)); ((2, 1), (2, 2)); ((2, 12), (2, 13));
               ((2, 24), (2, 25)); ((2, 35), (2, 36))])
  /\ rename (doc_of sample_refs) 3 18 = ROk (Some [((3, 18), (3, 19)); ((3, 38), (3, 39))])
  /\ prepare_rename (doc_of sample_refs) 3 18 = ROk (Some ((3, 18), (3, 19)))
  /\ prepare_rename (doc_of sample_refs) 3 19 = ROk None.
Proof. vm_compute. repeat split. Qed.

(* an instance of the round trip: renaming main's `a` to `fresh` and back *)
Example C13_roundtrip_instance :
  match rename (doc_of sample_refs) 3 18 with
  | ROk (Some es) =>
      match apply_rename sample_refs es [102; 114; 101; 115; 104] with
      | Some t' =>
          is_clean t' = true
          /\ match rename (doc_of t') 3 18 with
             | ROk (Some es') => apply_rename t' es' [97] = Some sample_refs /\ length es' = 2%nat
             | _ => False
             end
      | None => False
      end
  | _ => False
  end.
Proof. vm_compute. repeat split. Qed.
