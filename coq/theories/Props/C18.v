(* C18 - JSON-RPC/LSP lifecycle conformance and clean termination.  Statements only.
   [run ms clean] is the model of the server process fed the client messages [ms] followed by
   the end of the client's stream ([clean = false]: the stream ends inside a frame). *)
From Spl Require Import Spec.Session Proofs.LifecycleProofs.

(* The whole observable behaviour of the model equals the specification: the responses are the
   prescribed ones (id and result/error code, in request order) for exactly the requests sent
   before the first `exit`, and the exit status is the prescribed one. *)
Theorem C18_conformance : forall ms clean,
  run ms clean = (PExited (spec_status ms clean), spec_responses [] (before_exit ms)).
Proof. exact run_spec. Qed.
Print Assumptions C18_conformance.

(* every request before termination receives exactly one response carrying its id, in order *)
Theorem C18_one_response : forall ms clean, map rid (snd (run ms clean)) = req_ids (before_exit ms).
Proof. exact one_response. Qed.
Print Assumptions C18_one_response.

(* whatever the session and wherever the stream ends, the run ends in an exited state *)
Theorem C18_terminates : forall ms clean, exists n, fst (run ms clean) = PExited n.
Proof. exact terminates. Qed.
Print Assumptions C18_terminates.

(* non-vacuity / readable instances of the specification *)
Example C18_example_session :
  run [Req 1 (MSupported 0); Req 2 MInitialize; Req 3 MInitialize; Notif MInitialized; Req 4 (MOther 0);
       Req 5 (MSupported 0); Req 6 MInitialize; Req 7 MShutdown; Req 8 (MSupported 0); Notif MExit; Req 9 MShutdown] true
  = (PExited 0,
     [ {| rid := 1; rans := Error ServerNotInitialized |}; {| rid := 2; rans := Result |};
       {| rid := 3; rans := Error InvalidRequest |}; {| rid := 4; rans := Error MethodNotFound |};
       {| rid := 5; rans := Result |}; {| rid := 6; rans := Error InvalidRequest |};
       {| rid := 7; rans := Result |}; {| rid := 8; rans := Error InvalidRequest |} ]).
Proof. vm_compute. reflexivity. Qed.

Example C18_example_exit_without_shutdown :
  run [Req 1 MInitialize; Notif MInitialized; Req 2 (MSupported 0); Notif MExit] true
  = (PExited 1, [ {| rid := 1; rans := Result |}; {| rid := 2; rans := Result |} ]).
Proof. vm_compute. reflexivity. Qed.
