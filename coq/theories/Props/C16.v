(* C16 - completion proposals respect scope and syntactic position.
   Statements only; every proof is `exact <lemma>` (Proofs/CompletionProofs.v, Proofs/ComplValid*.v, Proofs/ComplFindings*.v).
   The theorems are about the model Model/Completion.v of lsp4spl/src/features/completion.rs; those of
   the first half hold for ALL documents (also malformed ones) and ALL cursor positions.

   PROVED: whatever `propose` answers, (1) the proposed variables are none or exactly the entries of
   the local table of the procedure ENTRY named like the declaration that contains the corrected
   cursor position - in particular no name local to another procedure is ever proposed; (2) the
   proposed procedures are none or exactly the procedure entries of the global table; (3) the
   proposed types are none or exactly the type entries of the global table; (4) outside
   every declaration the answer is the declaration starters, with the main snippet iff `main` is
   not a procedure of the table.
   (5) under the executable tree well-formedness predicate [compl_wf_b] the handler never panics.
   NOT proved for all documents: WHICH of the alternatives is taken at which syntactic position (the
   position classifier) - on malformed documents this is validated by correspondence + oracle only; for
   VALID programs it is proved below on the position classes where the classifier works, together with
   the fact that the local table of a procedure holds exactly its parameters and variables.  (That
   [compl_wf_b] holds for the trees the parser builds is Proofs/TotalCompl.v; the judge also evaluates
   it on every request: command 51 adds 4 to its flag when it fails.)  The full functional statement
   ([C16_full_statement]: all four position classes INCLUDING the position directly behind a token and
   positions behind comments) is stated on the model and REFUTED by a witness of the known finding
   C16-cursor-directly-behind-token.

   PROVED in addition, for every VALID program in every layout (second half of this file; p an abstract
   program of the grammar, G a table with [well_typed (expected p) G], t a text that lexes to p's token
   kinds - the bridge of C14/C12/C13/C15; Proofs/ComplValid*.v), at every cursor index c in the WHITE
   SPACE between two adjacent tokens tprev, tnext with  te tprev < c <= ts tnext  (at least one character
   between tprev and the cursor; comments are tokens, so no comment lies between them):
   (S) [C16_statement_position_valid]: the gap in front of a variable declaration, of a top-level
       statement of a procedure body, or of the body's closing brace: the answer is
       [var snippet; `var`] (iff only `;` statements stand in front) ++ [while/if snippets; `if`; `while`]
       ++ one VARIABLE item per entry of the procedure's local table ++ one FUNCTION item per procedure
       entry of G (declared and predefined); no type is proposed; the names of the local table are
       exactly the parameters followed by the local variables of THIS procedure.
   (S') [C16_nested_statement_position_valid]: the same (without the `var` starters, possibly with the
       `else` starters in front) at the statement positions of blocks nested at any depth in a
       top-level statement (through blocks, `if` branches, `while` bodies).  The start of a branch / loop
       body (known finding C16-branch-statement-start) is [C16_branch_statement_start] below.
   (T) [C16_type_position_valid]: the gap behind any `:` or `of` of a procedure declaration (parameter or
       local variable): exactly one STRUCT item per type entry of G: `int` and ALL declared types - also
       the types declared further down in the text (the handler consults the final table).
       [C16_proc_of_position] is the `of` half on its own.
   [C16_type_decl_position]: inside a TYPE declaration the answer depends on the kind of tprev only:
       behind `=` and behind `of` the array starters and all type entries of G; behind `]` the keyword
       `of`; otherwise null.
       The model follows /repo f933470, which REPAIRED the two findings these theorems exposed at the
       pinned commit: C16-type-decl-equals (behind `=` only `int` was offered, no declared type) and
       C16-proc-array-of (behind an `of` inside a procedure declaration the answer was null).
   (G) [C16_toplevel_position_valid], [C16_toplevel_start_valid]: the gap behind the last token of a global
       declaration (in front of the next declaration or of the end of the text) and the white space in
       front of the first token of the text (cursor not at index 0: known finding C16-text-start): exactly
       the four declaration starters, no `main` snippet (a valid program declares main).
       ([C16_toplevel] above is the statement for all documents.)

   PROVED in addition (last part of this file, continued in Props/C16Findings.v; Proofs/ComplFindings*.v):
   THE FIVE KNOWN FINDING CLASSES, CHARACTERISED.  For every valid program the model is decided at EVERY cursor index in
   the white space of a procedure declaration - between two adjacent tokens (comments are tokens) or directly behind a
   token, the closing brace included:
     C16_body_positions_classified   the answer is [render .. (proc_spec D dd lo hi lastk)], where [proc_spec] is a
         function of the ABSTRACT declaration, of two token indices (lo = hi: the position is INSIDE token lo, where
         `correct_index` puts a cursor that stands directly behind a token; hi = lo + 1: in the gap behind it) and of the
         kind of the token `token_before` returns; [C16_classifier_equations] are its defining equations.  The theorems
         (S), (S'), (T) and the following ones are instances; an independent evaluation compares it with `propose` at all
         93 such positions of an example procedure (C16Findings.v [C16_classified_eval]).
   The position classes on which the classifier of the real code answers null or incompletely (known findings
   C16-cursor-directly-behind-token, C16-comment-before-cursor, C16-text-start, C16-branch-statement-start,
   C16-paren-left-of-assign) are thereby theorems about the model, at any nesting depth ((F): pinned in C16Findings.v):
     (1) C16_directly_behind_token  c = te tprev: the answer of the position INSIDE tprev, `token_before` = tprev if it has
         two characters or more, the token in front of it otherwise ((F) C16_token_lengths: which tokens have one).
         Per kind (F): behind `:=` null [C16_directly_behind_assign]; behind the `(` of a call / `if` / `while` null
         [C16_directly_behind_paren]; behind the `;` of an assignment or call the variables only
         [C16_directly_behind_statement_semic]; behind the `{` / `}` of a block the statement proposals
         [C16_directly_behind_block_brace]; behind the closing brace of a procedure the statement proposals with its
         locals, not the declaration starters [C16_directly_behind_procedure_end]; behind a token of the header / the
         variable declarations the answer of the kind of `token_before` alone - null behind `:`, `{`, `;`, an identifier
         [C16_directly_behind_declaration_token]; in a type declaration [C16_directly_behind_type_decl_token].  (Not uniform
         for the `;` of an empty statement and for identifiers inside bodies: decided by their context through
         [C16_body_positions_classified].)
     (2) C16_comment_before_cursor  tprev a comment, the cursor behind it up to the next token (the start of the next line
         included): behind a leading comment of a statement the statement proposals if the statement is `;` or a block, NULL
         in front of an assignment, call, `if`, `while`; (F) [C16_comment_before_cursor_declaration]: null in the header, the
         variable declarations (no types behind `:` + comment) and in front of the first statement other than `;`;
         (F) [C16_comment_before_cursor_procedure_end]: in front of the closing brace the statement proposals iff the body
         holds a statement other than `;`.
     (3) C16_text_start  c = 0 in a text that starts with a token: null ((F) [C16_text_start_blank]: starters otherwise).
     (4) C16_branch_statement_start  the white space in front of a then- / else-branch or a loop body (block or not):
         exactly the variables of the procedure.
     (5) C16_paren_left_of_assign  every gap of an assignment left of `:=`: null; (F) [C16_assignment_call_positions]:
         every gap of an assignment / a call: null left of `:=` / `(`, exactly the variables right of it (the expression
         positions of C16, which (S), (S'), (T), (G) do not cover).
   C16Findings.v [C16_findings_examples] applies them to a second example program (Proofs/ComplFindingsEx.v).

   PROVED in addition, for every DOCUMENT WITHOUT DIAGNOSTICS (third part of this file; Proofs/CompleteFeatures.v):
   by the COMPLETENESS of the front end (Proofs/CompleteFront.v [front_end_complete]) a document d that
   AnalyzedSource::new builds from t, whose errors() is empty and none of whose tokens carries a lexical error
   ([clean_doc t d] of Spec/Nav.v; lexical errors are attached to tokens and never published, hence the third
   condition) is the document of a layout of a well-typed abstract program:
     C16_clean_doc_is_valid    every such document satisfies the hypotheses of the *_valid theorems above, for some
                               derivation p of its token vector and G = its table;
     C16_clean_doc_layout      ... and for EVERY derivation p of its token vector in the grammar;
     C16_statement_position_clean, C16_nested_statement_position_clean, C16_type_position_clean,
     C16_type_decl_position_clean, C16_toplevel_position_clean, C16_toplevel_start_clean
                               the position theorems restated with [clean_doc t d] in place of the hypotheses on
                               G / lex / new_doc_res: p is any derivation of the document's token vector (it only
                               serves to describe the position), the table is the document's. *)
From Coq Require Import List PeanoNat.
From Spl Require Import Model.Completion Proofs.CompletionProofs.
From Spl Require Import Spec.Grammar Spec.Typing.
From Spl Require Import Proofs.ComplValidBase Proofs.ComplValidProc Proofs.ComplValidNest Proofs.ComplValid Proofs.ComplValidTop Proofs.ComplValidEx.
Import ListNotations.

Theorem C16_shape : forall d line col r,
  propose d line col = ROk r -> shape_ok (consulted_table d line col) (d_table d) r.
Proof. exact propose_shape. Qed.
Print Assumptions C16_shape.

Theorem C16_no_leak : forall d line col items it,
  propose d line col = ROk (Some items) -> In it items -> it_kind it = kind_variable ->
  exists pd off name p,
    find_decl (d_toks d) (cursor_position d line col) (pg_decls (d_ast d)) = ROk (Some (GProc pd, off)) /\
    pd_name pd = Some name /\ lookup (d_table d) (id_val name) = Some (GProcE p) /\
    In it (search_variables (pe_local p)).
Proof. exact propose_variables_local. Qed.
Print Assumptions C16_no_leak.

Theorem C16_toplevel : forall d line col r,
  propose d line col = ROk r ->
  find_decl (d_toks d) (cursor_position d line col) (pg_decls (d_ast d)) = ROk None ->
  last_type_unfinished d = false ->
  r = Some (new_global_declaration (d_table d)).
Proof. exact propose_toplevel. Qed.
Print Assumptions C16_toplevel.

Theorem C16_main_snippet : forall g,
  In snip_main (new_global_declaration g) <-> ~ exists p, lookup g s_main = Some (GProcE p).
Proof. exact main_snippet_iff. Qed.
Print Assumptions C16_main_snippet.

Theorem C16_toplevel_only_starters : forall g,
  filter is_var (new_global_declaration g) = [] /\ filter is_fun (new_global_declaration g) = [] /\
  filter is_struct (new_global_declaration g) = [].
Proof. exact toplevel_no_entries. Qed.
Print Assumptions C16_toplevel_only_starters.

(* robustness: under the executable well-formedness predicate on the tree (every global declaration and
   every statement has a non-empty range that starts at its own Reference and lies inside its parent /
   the token vector) no slice, index or `expect` of the handler can fire *)
Theorem C16_no_panic : forall d line col, compl_wf_b d = true -> exists r, propose d line col = ROk r.
Proof. exact propose_no_panic. Qed.
Print Assumptions C16_no_panic.

(* ---- the full functional statement ---- *)
(* In a document without diagnostics (a missing `main` is tolerated), at every cursor position of one
   of the four classes of the property - decided from the tokens and the syntax tree by
   [position_class]: PStmt = a statement start or the gap in front of a closing brace inside a
   procedure body, PExpr = behind `:=` or behind a `(` of a body, PType = behind `:` in a procedure
   declaration, PTop = between / before / behind the global declarations; each class includes the
   position directly behind the token and positions behind comments - the answer is what the property
   prescribes ([meets]): PStmt: variables = the local table of that procedure's entry and procedures =
   all procedure entries; PExpr: those variables; PType: types = all type entries (declared + int);
   PTop: exactly the declaration starters (main snippet iff main is absent). *)
Definition C16_full_statement : Prop :=
  forall t d line col c,
    new_doc t = Done d -> valid_doc d = true ->
    position_class d (get_insertion_index line col (d_text d)) = Some c ->
    meets d c (propose d line col) = true.

(* The faithful model REFUTES it: `proc main() { var x: int; x :=1; }` at 0:30, directly behind `:=`, is
   answered with `null` (known finding C16-cursor-directly-behind-token; the other known findings of
   C16 are further classes of counterexamples).  The check decides the statement for every document
   and oracle position (judge command 51, flag) in agreement with the independent python oracle. *)
Theorem C16_full_statement_refuted : ~ C16_full_statement.
Proof. exact completion_full_statement_refuted. Qed.
Print Assumptions C16_full_statement_refuted.

(* ---- non-vacuity: `proc p(a: int) { var x: int; x := a; }` LF `proc main() { }` ---- *)
Definition c16_text : text :=
  [112; 114; 111; 99; 32; 112; 40; 97; 58; 32; 105; 110; 116; 41; 32; 123; 32; 118; 97; 114; 32; 120; 58; 32;
   105; 110; 116; 59; 32; 120; 32; 58; 61; 32; 97; 59; 32; 125; 10;
   112; 114; 111; 99; 32; 109; 97; 105; 110; 40; 41; 32; 123; 32; 125]%N.

Definition c16_answer (line col : N) : option (list (text * N)) :=
  match new_doc c16_text with
  | Done d => match propose d line col with
              | ROk (Some items) => Some (map (fun i => (it_label i, it_kind i)) items)
              | _ => None
              end
  | _ => None
  end.

(* after `:= ` (0:34): exactly the parameter and the variable of p *)
Example C16_example_vars : c16_answer 0 34 = Some [([97], 6); ([120], 6)]%N.
Proof. vm_compute. reflexivity. Qed.

(* statement start in p (0:29, in front of `x := a;`): var starters, statement starters, a, x, and all 12 procedures *)
Example C16_example_stmt :
  option_map (fun l => (length l, filter (fun x => (snd x =? 6)%N) l)) (c16_answer 0 29)
  = Some (20%nat, [([97], 6); ([120], 6)])%N.
Proof. vm_compute. reflexivity. Qed.

(* in the body of main (1:14): no variable at all - the names a, x of p are not proposed *)
Example C16_example_no_leak :
  option_map (fun l => filter (fun x => (snd x =? 6)%N) l) (c16_answer 1 14) = Some [].
Proof. vm_compute. reflexivity. Qed.

(* end of the text behind a blank line would be top level; here 1:15 (behind `}` + nothing) is still
   inside main; top level needs white space: use the line break between the declarations (0:38 is the
   end of line 0, directly behind `}`; the position 1:0 has the line break in front of it) *)
Example C16_example_toplevel :
  c16_answer 1 0 = Some [([112; 114; 111; 99], 15); ([116; 121; 112; 101], 15); ([112; 114; 111; 99], 14); ([116; 121; 112; 101], 14)]%N.
Proof. vm_compute. reflexivity. Qed.

(* ========================================================================================== *)
(* VALID programs, any layout: the positive functional theorems (Proofs/ComplValid*.v)          *)

(* how the items read: label = the key of the table entry *)
Theorem C16_item_labels : forall (L : ltable) (G : gtable),
  map it_label (search_variables L) = map fst L /\
  map it_label (search_procedures G) = map fst (filter (fun kv => is_proc_entry (snd kv)) G) /\
  map it_label (search_types G) = map fst (filter (fun kv => is_type_entry (snd kv)) G).
Proof. exact (fun L G => conj (variables_labels L) (conj (procedures_labels G) (types_labels G))). Qed.
Print Assumptions C16_item_labels.

(* (S) statement position: the procedure declares vs1 ++ vs2 and has the body b1 ; b2, where vs2 = [] or
   b1 is empty; token j is the first token of vs2 / b2 / the closing brace (leading comments included),
   token j - 1 the `{`, the `;` of the last declaration of vs1 or the last token of the last statement of b1.
   [proc_head]: the tokens of the declaration up to and including `{`; [has_real b1]: b1 holds a
   statement other than `;`; [aparams_names ps]: the parameter names in order. *)
Theorem C16_statement_position_valid : forall (p : aprog) (G : gtable) (t : text) (toks : list token) (d : doc),
  prog_ok p = true -> well_typed (expected p) G ->
  lex t = Some toks -> map tk toks = flatten p ++ [Eof] -> new_doc_res t = ODone d ->
  forall l1 c1 c2 x c3 ps c4 c5 vs1 vs2 b1 b2 c6 l2,
    a_decls p = l1 ++ DProc c1 c2 x c3 ps c4 c5 (vs1 ++ vs2) (sapp b1 b2) c6 :: l2 ->
    (vs2 = [] \/ b1 = SNil) ->
    let j := (length (flat_map fl_decl l1) + length (proc_head c1 c2 x c3 ps c4 c5)
              + length (flat_map fl_vardecl vs1) + length (fl_stmts b1))%nat in
    forall tprev tnext line col,
      nth_error toks (j - 1) = Some tprev -> nth_error toks j = Some tnext ->
      (te tprev < get_insertion_index line col t)%N -> (get_insertion_index line col t <= ts tnext)%N ->
      exists pe items,
        lookup G x = Some (GProcE pe) /\
        map fst (pe_local pe) = aparams_names ps ++ map v_x (vs1 ++ vs2) /\
        propose d line col = ROk (Some items) /\
        items = (if has_real b1 then [] else [snip_var; item_var]) ++ new_stmt (Some (pe_local pe)) G /\
        filter is_var items = search_variables (pe_local pe) /\
        filter is_fun items = search_procedures G /\
        filter is_struct items = [].
Proof. exact propose_statement_position. Qed.
Print Assumptions C16_statement_position_valid.

(* (S') statement positions of nested blocks: [sgap s g] (Proofs/ComplValidNest.v) - token g of the
   top-level statement s is the first token of a statement of a block nested in s (or s itself), or of that
   block's closing brace; [else_or_not pre]: pre = [] or pre = [else snippet; `else`] *)
Theorem C16_nested_statement_position_valid : forall (p : aprog) (G : gtable) (t : text) (toks : list token) (d : doc),
  prog_ok p = true -> well_typed (expected p) G ->
  lex t = Some toks -> map tk toks = flatten p ++ [Eof] -> new_doc_res t = ODone d ->
  forall l1 c1 c2 x c3 ps c4 c5 vs b1 s b2 c6 l2 g,
    a_decls p = l1 ++ DProc c1 c2 x c3 ps c4 c5 vs (sapp b1 (SCons s b2)) c6 :: l2 ->
    sgap s g ->
    let j := (length (flat_map fl_decl l1) + length (proc_head c1 c2 x c3 ps c4 c5)
              + length (flat_map fl_vardecl vs) + length (fl_stmts b1) + g)%nat in
    forall tprev tnext line col,
      nth_error toks (j - 1) = Some tprev -> nth_error toks j = Some tnext ->
      (te tprev < get_insertion_index line col t)%N -> (get_insertion_index line col t <= ts tnext)%N ->
      exists pe pre items,
        lookup G x = Some (GProcE pe) /\
        map fst (pe_local pe) = aparams_names ps ++ map v_x vs /\
        propose d line col = ROk (Some items) /\
        items = pre ++ new_stmt (Some (pe_local pe)) G /\ else_or_not pre /\
        filter is_var items = search_variables (pe_local pe) /\
        filter is_fun items = search_procedures G /\
        filter is_struct items = [].
Proof. exact propose_nested_statement_position. Qed.
Print Assumptions C16_nested_statement_position_valid.

(* (T) type position: behind ANY `:` or `of` token of a procedure declaration *)
Theorem C16_type_position_valid : forall (p : aprog) (G : gtable) (t : text) (toks : list token) (d : doc),
  prog_ok p = true -> well_typed (expected p) G ->
  lex t = Some toks -> map tk toks = flatten p ++ [Eof] -> new_doc_res t = ODone d ->
  forall l1 c1 c2 x c3 ps c4 c5 vs b c6 l2,
    a_decls p = l1 ++ DProc c1 c2 x c3 ps c4 c5 vs b c6 :: l2 ->
    let D := length (flat_map fl_decl l1) in
    forall k tprev tnext line col,
      (D <= k)%nat -> (S k < D + length (fl_decl (DProc c1 c2 x c3 ps c4 c5 vs b c6)))%nat ->
      nth_error toks k = Some tprev -> tk tprev = Colon \/ tk tprev = KOf -> nth_error toks (S k) = Some tnext ->
      (te tprev < get_insertion_index line col t)%N -> (get_insertion_index line col t <= ts tnext)%N ->
      propose d line col = ROk (Some (search_types G)).
Proof. exact propose_type_position. Qed.
Print Assumptions C16_type_position_valid.

(* inside a type declaration the kind of the token in front of the gap decides *)
Theorem C16_type_decl_position : forall (p : aprog) (G : gtable) (t : text) (toks : list token) (d : doc),
  prog_ok p = true -> well_typed (expected p) G ->
  lex t = Some toks -> map tk toks = flatten p ++ [Eof] -> new_doc_res t = ODone d ->
  forall l1 c1 c2 x c3 ty c4 l2,
    a_decls p = l1 ++ DType c1 c2 x c3 ty c4 :: l2 ->
    let D := length (flat_map fl_decl l1) in
    forall k tprev tnext line col,
      (D <= k)%nat -> (S k < D + length (fl_decl (DType c1 c2 x c3 ty c4)))%nat ->
      nth_error toks k = Some tprev -> nth_error toks (S k) = Some tnext ->
      (te tprev < get_insertion_index line col t)%N -> (get_insertion_index line col t <= ts tnext)%N ->
      propose d line col =
        ROk (match tk tprev with
             | RBracket => Some [item_of]
             | EqT | KOf => Some ([snip_array; item_array] ++ search_types G)
             | _ => None
             end).
Proof. exact propose_type_decl_position. Qed.
Print Assumptions C16_type_decl_position.

(* behind an `of` of a parameter / variable declaration: all types (null before /repo f933470) *)
Theorem C16_proc_of_position : forall (p : aprog) (G : gtable) (t : text) (toks : list token) (d : doc),
  prog_ok p = true -> well_typed (expected p) G ->
  lex t = Some toks -> map tk toks = flatten p ++ [Eof] -> new_doc_res t = ODone d ->
  forall l1 c1 c2 x c3 ps c4 c5 vs b c6 l2,
    a_decls p = l1 ++ DProc c1 c2 x c3 ps c4 c5 vs b c6 :: l2 ->
    let D := length (flat_map fl_decl l1) in
    forall k tprev tnext line col,
      (D <= k)%nat -> (S k < D + length (fl_decl (DProc c1 c2 x c3 ps c4 c5 vs b c6)))%nat ->
      nth_error toks k = Some tprev -> tk tprev = KOf -> nth_error toks (S k) = Some tnext ->
      (te tprev < get_insertion_index line col t)%N -> (get_insertion_index line col t <= ts tnext)%N ->
      propose d line col = ROk (Some (search_types G)).
Proof. exact propose_proc_of_position. Qed.
Print Assumptions C16_proc_of_position.

(* (G) top level: behind the last token of the declarations l1 (token j - 1), in front of token j *)
Theorem C16_toplevel_position_valid : forall (p : aprog) (G : gtable) (t : text) (toks : list token) (d : doc),
  prog_ok p = true -> well_typed (expected p) G ->
  lex t = Some toks -> map tk toks = flatten p ++ [Eof] -> new_doc_res t = ODone d ->
  forall l1 l2, a_decls p = l1 ++ l2 ->
    let j := length (flat_map fl_decl l1) in
    forall tprev tnext line col,
      (1 <= j)%nat -> nth_error toks (j - 1) = Some tprev -> nth_error toks j = Some tnext ->
      (te tprev < get_insertion_index line col t)%N -> (get_insertion_index line col t <= ts tnext)%N ->
      propose d line col = ROk (Some [snip_proc; snip_type; item_proc; item_type]).
Proof. exact propose_toplevel_position. Qed.
Print Assumptions C16_toplevel_position_valid.

Theorem C16_toplevel_start_valid : forall (p : aprog) (G : gtable) (t : text) (toks : list token) (d : doc),
  prog_ok p = true -> well_typed (expected p) G ->
  lex t = Some toks -> map tk toks = flatten p ++ [Eof] -> new_doc_res t = ODone d ->
  forall tnext line col,
    nth_error toks 0 = Some tnext ->
    (0 < get_insertion_index line col t)%N -> (get_insertion_index line col t <= ts tnext)%N ->
    propose d line col = ROk (Some [snip_proc; snip_type; item_proc; item_type]).
Proof. exact propose_toplevel_start. Qed.
Print Assumptions C16_toplevel_start_valid.

(* ---- non-vacuity: the theorems applied to the valid program of Proofs/ComplValidEx.v ----
     type v = array [2] of int;
     proc p(ref a: v, n: int) { var i: int; i := n; while (i < 2) { a[i] := i; i := i + 1; } }
     proc main() { }
     proc q() { var w: array [2] of int; }
   tokens 0-9 the type declaration, 10-53 the procedure p (10-22 its head), 54-59 main, 60-75 q. *)
Definition c16_tok (k : kind) (s e : N) : token := {| tk := k; ts := s; te := e; terr := [] |}.

Example C16_valid_examples :
  match lex cx_text, new_doc_res cx_text with
  | Some toks, ODone d =>
      (* (S) 1:47 = index 74, the gap between `i := n;` and `while`: a, n, i and all 13 procedures, no `var` *)
      (forall line col, get_insertion_index line col cx_text = 74%N ->
         exists items, propose d line col = ROk (Some items) /\ length items = 20%nat /\
           map it_label (filter is_var items) = [sx_a; sx_n; sx_i] /\
           map it_label (filter is_fun items) = map fst (filter (fun kv => is_proc_entry (snd kv)) cx_table) /\
           filter is_struct items = [])
      (* (S) 1:27 = index 54, the gap between `{` and `var`: the same with the `var` starters in front *)
      /\ (forall line col, get_insertion_index line col cx_text = 54%N ->
         exists items, propose d line col = ROk (Some (snip_var :: item_var :: items)) /\ length items = 20%nat /\
           map it_label (filter is_var items) = [sx_a; sx_n; sx_i])
      (* (S') 1:74 = index 101, inside the block of the loop, between `a[i] := i;` and `i := i + 1;` *)
      /\ (forall line col, get_insertion_index line col cx_text = 101%N ->
         exists items, propose d line col = ROk (Some items) /\
           map it_label (filter is_var items) = [sx_a; sx_n; sx_i] /\
           map it_label (filter is_fun items) = map fst (filter (fun kv => is_proc_entry (snd kv)) cx_table) /\
           filter is_struct items = [])
      (* (T) 1:20 = index 47 behind the `:` of the parameter n, 1:34 = index 61 behind the `:` of the variable i *)
      /\ (forall line col, get_insertion_index line col cx_text = 47%N \/ get_insertion_index line col cx_text = 61%N ->
         exists items, propose d line col = ROk (Some items) /\ map it_label items = [s_int; sx_v])
      (* (T) 3:31 = index 164 behind the `of` of the variable w of q *)
      /\ (forall line col, get_insertion_index line col cx_text = 164%N ->
         exists items, propose d line col = ROk (Some items) /\ map it_label items = [s_int; sx_v])
      (* type declaration, 0:22 behind `of` and 0:9 behind `=`: array starters, int, v *)
      /\ (forall line col, get_insertion_index line col cx_text = 22%N ->
         exists items, propose d line col = ROk (Some (snip_array :: item_array :: items)) /\ map it_label items = [s_int; sx_v])
      /\ (forall line col, get_insertion_index line col cx_text = 9%N ->
         exists items, propose d line col = ROk (Some (snip_array :: item_array :: items)) /\ map it_label items = [s_int; sx_v])
      (* (G) 2:0 = index 117, behind the line break that follows the `}` of p *)
      /\ (forall line col, get_insertion_index line col cx_text = 117%N ->
         propose d line col = ROk (Some [snip_proc; snip_type; item_proc; item_type]))
  | _, _ => False
  end.
Proof.
  destruct cx_layout as [Hok Hl].
  destruct (lex cx_text) as [toks|] eqn:El; [|contradiction].
  destruct (new_doc_res cx_text) as [d|s|] eqn:Ed;
    [|vm_compute in Ed; discriminate Ed|vm_compute in Ed; discriminate Ed].
  assert (Et : toks = match lex cx_text with Some x => x | None => [] end) by now rewrite El.
  vm_compute in Et.
  repeat split.
  - intros line col Hi.
    destruct (C16_statement_position_valid cx_p cx_table cx_text toks d Hok cx_well_typed El Hl Ed
                [cx_type] cx0 cx0 sx_p cx0 cx_params cx0 cx0 [cx_var] [] (SCons cx_assign SNil) (SCons cx_while SNil) cx0 [cx_main; cx_q]
                eq_refl (or_introl eq_refl) (c16_tok Semic 72 73) (c16_tok KWhile 74 79) line col
                ltac:(rewrite Et; reflexivity) ltac:(rewrite Et; reflexivity)
                ltac:(rewrite Hi; reflexivity) ltac:(rewrite Hi; vm_compute; discriminate))
      as (pe & items & Hlk & Hnames & Hp & Hitems & Fv & Ff & Fs).
    exists items. split; [exact Hp|]. vm_compute in Hlk. injection Hlk as <-.
    split; [rewrite Hitems; reflexivity|]. rewrite Fv, Ff, Fs. repeat split; reflexivity.
  - intros line col Hi.
    destruct (C16_statement_position_valid cx_p cx_table cx_text toks d Hok cx_well_typed El Hl Ed
                [cx_type] cx0 cx0 sx_p cx0 cx_params cx0 cx0 [] [cx_var] SNil (SCons cx_assign (SCons cx_while SNil)) cx0 [cx_main; cx_q]
                eq_refl (or_intror eq_refl) (c16_tok LCurly 52 53) (c16_tok KVar 54 57) line col
                ltac:(rewrite Et; reflexivity) ltac:(rewrite Et; reflexivity)
                ltac:(rewrite Hi; reflexivity) ltac:(rewrite Hi; vm_compute; discriminate))
      as (pe & items & Hlk & Hnames & Hp & Hitems & Fv & Ff & Fs).
    vm_compute in Hlk. injection Hlk as <-. rewrite Hp, Hitems. eexists. split; [reflexivity|]. split; reflexivity.
  - intros line col Hi.
    destruct (C16_nested_statement_position_valid cx_p cx_table cx_text toks d Hok cx_well_typed El Hl Ed
                [cx_type] cx0 cx0 sx_p cx0 cx_params cx0 cx0 [cx_var] (SCons cx_assign SNil) cx_while SNil cx0 [cx_main; cx_q] 14%nat
                eq_refl
                (SG_whl cx0 cx0 _ cx0 _ _
                   (SG_here cx0 (SCons (SAsg (AIndex (cx_nm sx_a) cx0 (cx_ef (FVar (cx_nm sx_i))) cx0) cx0 (cx_ef (FVar (cx_nm sx_i))) cx0) SNil)
                            (SCons (SAsg (cx_nm sx_i) cx0 (CAdd (ABin (AMul (MFac (FVar (cx_nm sx_i)))) cx0 APlus (MFac (cx_lit 1)))) cx0) SNil) cx0))
                (c16_tok Semic 99 100) (c16_tok (Ident sx_i) 101 102) line col
                ltac:(rewrite Et; reflexivity) ltac:(rewrite Et; reflexivity)
                ltac:(rewrite Hi; reflexivity) ltac:(rewrite Hi; vm_compute; discriminate))
      as (pe & pre & items & Hlk & Hnames & Hp & Hitems & Hpre & Fv & Ff & Fs).
    exists items. split; [exact Hp|]. vm_compute in Hlk. injection Hlk as <-.
    rewrite Fv, Ff, Fs. repeat split; reflexivity.
  - intros line col [Hi|Hi].
    + exists (search_types cx_table). split; [|reflexivity].
      apply (C16_type_position_valid cx_p cx_table cx_text toks d Hok cx_well_typed El Hl Ed
               [cx_type] cx0 cx0 sx_p cx0 cx_params cx0 cx0 [cx_var] (SCons cx_assign (SCons cx_while SNil)) cx0 [cx_main; cx_q]
               eq_refl 19%nat (c16_tok Colon 45 46) (c16_tok (Ident s_int) 47 50) line col
               ltac:(apply Nat.leb_le; reflexivity) ltac:(apply Nat.ltb_lt; reflexivity)
               ltac:(rewrite Et; reflexivity) (or_introl eq_refl) ltac:(rewrite Et; reflexivity)
               ltac:(rewrite Hi; reflexivity) ltac:(rewrite Hi; vm_compute; discriminate)).
    + exists (search_types cx_table). split; [|reflexivity].
      apply (C16_type_position_valid cx_p cx_table cx_text toks d Hok cx_well_typed El Hl Ed
               [cx_type] cx0 cx0 sx_p cx0 cx_params cx0 cx0 [cx_var] (SCons cx_assign (SCons cx_while SNil)) cx0 [cx_main; cx_q]
               eq_refl 25%nat (c16_tok Colon 59 60) (c16_tok (Ident s_int) 61 64) line col
               ltac:(apply Nat.leb_le; reflexivity) ltac:(apply Nat.ltb_lt; reflexivity)
               ltac:(rewrite Et; reflexivity) (or_introl eq_refl) ltac:(rewrite Et; reflexivity)
               ltac:(rewrite Hi; reflexivity) ltac:(rewrite Hi; vm_compute; discriminate)).
  - intros line col Hi. exists (search_types cx_table). split; [|reflexivity].
    apply (C16_type_position_valid cx_p cx_table cx_text toks d Hok cx_well_typed El Hl Ed
             [cx_type; DProc cx0 cx0 sx_p cx0 cx_params cx0 cx0 [cx_var] (SCons cx_assign (SCons cx_while SNil)) cx0; cx_main]
             cx0 cx0 sx_q cx0 None cx0 cx0 [cx_wvar] SNil cx0 []
             eq_refl 72%nat (c16_tok KOf 161 163) (c16_tok (Ident s_int) 164 167) line col
             ltac:(apply Nat.leb_le; reflexivity) ltac:(apply Nat.ltb_lt; reflexivity)
             ltac:(rewrite Et; reflexivity) (or_intror eq_refl) ltac:(rewrite Et; reflexivity)
             ltac:(rewrite Hi; reflexivity) ltac:(rewrite Hi; vm_compute; discriminate)).
  - intros line col Hi. exists (search_types cx_table). split; [|reflexivity].
    rewrite (C16_type_decl_position cx_p cx_table cx_text toks d Hok cx_well_typed El Hl Ed
               [] cx0 cx0 sx_v cx0 (TArr cx0 cx0 cx0 (LDec 2) cx0 cx0 (TName cx0 s_int)) cx0 [_; cx_main; cx_q]
               eq_refl 7%nat (c16_tok KOf 19 21) (c16_tok (Ident s_int) 22 25) line col
               ltac:(apply Nat.leb_le; reflexivity) ltac:(apply Nat.ltb_lt; reflexivity)
               ltac:(rewrite Et; reflexivity) ltac:(rewrite Et; reflexivity)
               ltac:(rewrite Hi; reflexivity) ltac:(rewrite Hi; vm_compute; discriminate)); reflexivity.
  - intros line col Hi. exists (search_types cx_table). split; [|reflexivity].
    rewrite (C16_type_decl_position cx_p cx_table cx_text toks d Hok cx_well_typed El Hl Ed
               [] cx0 cx0 sx_v cx0 (TArr cx0 cx0 cx0 (LDec 2) cx0 cx0 (TName cx0 s_int)) cx0 [_; cx_main; cx_q]
               eq_refl 2%nat (c16_tok EqT 7 8) (c16_tok KArray 9 14) line col
               ltac:(apply Nat.leb_le; reflexivity) ltac:(apply Nat.ltb_lt; reflexivity)
               ltac:(rewrite Et; reflexivity) ltac:(rewrite Et; reflexivity)
               ltac:(rewrite Hi; reflexivity) ltac:(rewrite Hi; vm_compute; discriminate)); reflexivity.
  - intros line col Hi.
    apply (C16_toplevel_position_valid cx_p cx_table cx_text toks d Hok cx_well_typed El Hl Ed
             [cx_type; DProc cx0 cx0 sx_p cx0 cx_params cx0 cx0 [cx_var] (SCons cx_assign (SCons cx_while SNil)) cx0] [cx_main; cx_q]
             eq_refl (c16_tok RCurly 115 116) (c16_tok KProc 117 121) line col
             ltac:(apply Nat.leb_le; reflexivity) ltac:(rewrite Et; reflexivity) ltac:(rewrite Et; reflexivity)
             ltac:(rewrite Hi; reflexivity) ltac:(rewrite Hi; vm_compute; discriminate)).
Qed.

(* ... and evaluated independently of the theorems, at every cursor index of the second line *)
Definition cx_answer (line col : N) : option (list (text * N)) :=
  match new_doc cx_text with
  | Done d => match propose d line col with
              | ROk (Some items) => Some (map (fun i => (it_label i, it_kind i)) items)
              | _ => None
              end
  | _ => None
  end.

Example C16_valid_examples_eval :
  let vars l := option_map (fun l => map fst (filter (fun x => (snd x =? 6)%N) l)) l in
  let nfun l := option_map (fun l => length (filter (fun x => (snd x =? 3)%N) l)) l in
  map (fun c => (vars (cx_answer 1 c), nfun (cx_answer 1 c))) [27; 39; 47; 74; 87; 88]%N
  = [(Some [sx_a; sx_n; sx_i], Some 13%nat); (Some [sx_a; sx_n; sx_i], Some 13%nat); (Some [sx_a; sx_n; sx_i], Some 13%nat);
     (Some [sx_a; sx_n; sx_i], Some 13%nat); (Some [sx_a; sx_n; sx_i], Some 13%nat); (Some [sx_a; sx_n; sx_i], Some 13%nat)]
  /\ map (fun c => option_map (map fst) (cx_answer 1 c)) [14; 20; 34]%N = [Some [s_int; sx_v]; Some [s_int; sx_v]; Some [s_int; sx_v]]
  /\ option_map (map fst) (cx_answer 3 31) = Some [s_int; sx_v]
  /\ map (fun c => option_map (map snd) (cx_answer 0 c)) [9; 22]%N = [Some [15; 14; 22; 22]; Some [15; 14; 22; 22]]%N.
Proof. vm_compute. repeat split; reflexivity. Qed.

(* ========================================================================================== *)
(* DOCUMENTS WITHOUT DIAGNOSTICS: the same theorems through the completeness of the front end   *)
(* (Proofs/CompleteFront.v, Proofs/CompleteFeatures.v)                                          *)
From Spl Require Import Spec.Nav Proofs.CompleteFront Proofs.CompleteFeatures.

(* every document without diagnostics satisfies the hypotheses of the *_valid theorems *)
Theorem C16_clean_doc_is_valid : forall (t : text) (d : doc), clean_doc t d ->
  exists p G, prog_ok p = true /\ well_typed (expected p) G /\ lex t = Some (d_toks d) /\
              map tk (d_toks d) = flatten p ++ [Eof] /\ d_ast d = expected p /\ d_table d = G.
Proof. exact clean_doc_valid. Qed.
Print Assumptions C16_clean_doc_is_valid.

(* ... with EVERY derivation of its token vector *)
Theorem C16_clean_doc_layout : forall (t : text) (d : doc) (p : aprog),
  clean_doc t d -> prog_ok p = true -> map tk (d_toks d) = flatten p ++ [Eof] ->
  well_typed (expected p) (d_table d) /\ lex t = Some (d_toks d) /\ new_doc_res t = ODone d /\ d_ast d = expected p.
Proof. exact clean_doc_layout. Qed.
Print Assumptions C16_clean_doc_layout.

Theorem C16_statement_position_clean : forall (t : text) (d : doc) (p : aprog),
  clean_doc t d -> prog_ok p = true -> map tk (d_toks d) = flatten p ++ [Eof] ->
  forall l1 c1 c2 x c3 ps c4 c5 vs1 vs2 b1 b2 c6 l2,
    a_decls p = l1 ++ DProc c1 c2 x c3 ps c4 c5 (vs1 ++ vs2) (sapp b1 b2) c6 :: l2 ->
    (vs2 = [] \/ b1 = SNil) ->
    let j := (length (flat_map fl_decl l1) + length (proc_head c1 c2 x c3 ps c4 c5)
              + length (flat_map fl_vardecl vs1) + length (fl_stmts b1))%nat in
    forall tprev tnext line col,
      nth_error (d_toks d) (j - 1) = Some tprev -> nth_error (d_toks d) j = Some tnext ->
      (te tprev < get_insertion_index line col t)%N -> (get_insertion_index line col t <= ts tnext)%N ->
      exists pe items,
        lookup (d_table d) x = Some (GProcE pe) /\
        map fst (pe_local pe) = aparams_names ps ++ map v_x (vs1 ++ vs2) /\
        propose d line col = ROk (Some items) /\
        items = (if has_real b1 then [] else [snip_var; item_var]) ++ new_stmt (Some (pe_local pe)) (d_table d) /\
        filter is_var items = search_variables (pe_local pe) /\
        filter is_fun items = search_procedures (d_table d) /\
        filter is_struct items = [].
Proof. exact propose_statement_position_clean. Qed.
Print Assumptions C16_statement_position_clean.

Theorem C16_nested_statement_position_clean : forall (t : text) (d : doc) (p : aprog),
  clean_doc t d -> prog_ok p = true -> map tk (d_toks d) = flatten p ++ [Eof] ->
  forall l1 c1 c2 x c3 ps c4 c5 vs b1 s b2 c6 l2 g,
    a_decls p = l1 ++ DProc c1 c2 x c3 ps c4 c5 vs (sapp b1 (SCons s b2)) c6 :: l2 ->
    sgap s g ->
    let j := (length (flat_map fl_decl l1) + length (proc_head c1 c2 x c3 ps c4 c5)
              + length (flat_map fl_vardecl vs) + length (fl_stmts b1) + g)%nat in
    forall tprev tnext line col,
      nth_error (d_toks d) (j - 1) = Some tprev -> nth_error (d_toks d) j = Some tnext ->
      (te tprev < get_insertion_index line col t)%N -> (get_insertion_index line col t <= ts tnext)%N ->
      exists pe pre items,
        lookup (d_table d) x = Some (GProcE pe) /\
        map fst (pe_local pe) = aparams_names ps ++ map v_x vs /\
        propose d line col = ROk (Some items) /\
        items = pre ++ new_stmt (Some (pe_local pe)) (d_table d) /\ else_or_not pre /\
        filter is_var items = search_variables (pe_local pe) /\
        filter is_fun items = search_procedures (d_table d) /\
        filter is_struct items = [].
Proof. exact propose_nested_statement_position_clean. Qed.
Print Assumptions C16_nested_statement_position_clean.

Theorem C16_type_position_clean : forall (t : text) (d : doc) (p : aprog),
  clean_doc t d -> prog_ok p = true -> map tk (d_toks d) = flatten p ++ [Eof] ->
  forall l1 c1 c2 x c3 ps c4 c5 vs b c6 l2,
    a_decls p = l1 ++ DProc c1 c2 x c3 ps c4 c5 vs b c6 :: l2 ->
    let D := length (flat_map fl_decl l1) in
    forall k tprev tnext line col,
      (D <= k)%nat -> (S k < D + length (fl_decl (DProc c1 c2 x c3 ps c4 c5 vs b c6)))%nat ->
      nth_error (d_toks d) k = Some tprev -> tk tprev = Colon \/ tk tprev = KOf -> nth_error (d_toks d) (S k) = Some tnext ->
      (te tprev < get_insertion_index line col t)%N -> (get_insertion_index line col t <= ts tnext)%N ->
      propose d line col = ROk (Some (search_types (d_table d))).
Proof. exact propose_type_position_clean. Qed.
Print Assumptions C16_type_position_clean.

Theorem C16_type_decl_position_clean : forall (t : text) (d : doc) (p : aprog),
  clean_doc t d -> prog_ok p = true -> map tk (d_toks d) = flatten p ++ [Eof] ->
  forall l1 c1 c2 x c3 ty c4 l2,
    a_decls p = l1 ++ DType c1 c2 x c3 ty c4 :: l2 ->
    let D := length (flat_map fl_decl l1) in
    forall k tprev tnext line col,
      (D <= k)%nat -> (S k < D + length (fl_decl (DType c1 c2 x c3 ty c4)))%nat ->
      nth_error (d_toks d) k = Some tprev -> nth_error (d_toks d) (S k) = Some tnext ->
      (te tprev < get_insertion_index line col t)%N -> (get_insertion_index line col t <= ts tnext)%N ->
      propose d line col =
        ROk (match tk tprev with
             | RBracket => Some [item_of]
             | EqT | KOf => Some ([snip_array; item_array] ++ search_types (d_table d))
             | _ => None
             end).
Proof. exact propose_type_decl_position_clean. Qed.
Print Assumptions C16_type_decl_position_clean.

Theorem C16_toplevel_position_clean : forall (t : text) (d : doc) (p : aprog),
  clean_doc t d -> prog_ok p = true -> map tk (d_toks d) = flatten p ++ [Eof] ->
  forall l1 l2, a_decls p = l1 ++ l2 ->
    let j := length (flat_map fl_decl l1) in
    forall tprev tnext line col,
      (1 <= j)%nat -> nth_error (d_toks d) (j - 1) = Some tprev -> nth_error (d_toks d) j = Some tnext ->
      (te tprev < get_insertion_index line col t)%N -> (get_insertion_index line col t <= ts tnext)%N ->
      propose d line col = ROk (Some [snip_proc; snip_type; item_proc; item_type]).
Proof. exact propose_toplevel_position_clean. Qed.
Print Assumptions C16_toplevel_position_clean.

(* no derivation needed to describe this position *)
Theorem C16_toplevel_start_clean : forall (t : text) (d : doc),
  clean_doc t d ->
  forall tnext line col,
    nth_error (d_toks d) 0 = Some tnext ->
    (0 < get_insertion_index line col t)%N -> (get_insertion_index line col t <= ts tnext)%N ->
    propose d line col = ROk (Some [snip_proc; snip_type; item_proc; item_type]).
Proof. exact propose_toplevel_start_clean. Qed.
Print Assumptions C16_toplevel_start_clean.

(* non-vacuity: the two example texts of this file are documents without diagnostics (decided by evaluation) *)
Example C16_clean_ex : is_clean c16_text = true /\ is_clean cx_text = true.
Proof. vm_compute. split; reflexivity. Qed.

(* ========================================================================================== *)
(* the five known finding classes, characterised                                                *)
(* (Proofs/ComplFindings*.v: on valid programs the model is decided at EVERY white-space position of
   a procedure declaration; the known findings of C16 are instances.  The headline theorem of each class
   is pinned here, the further ones - per kind of token, declaration parts, type declarations - and the
   examples in Props/C16Findings.v)                                                             *)
From Coq Require Import NArith.
From Spl Require Import Proofs.ComplFindingsSpec Proofs.ComplFindingsProc Proofs.ComplFindingsPath Proofs.ComplFindingsLex.
From Spl Require Import Proofs.ComplFindings Proofs.ComplFindingsClasses Proofs.ComplFindingsEx.
Local Open Scope nat_scope.

(* ---- the classifier as a function of the abstract program ----
   A position is given by two token indices: lo = the last token that starts at or before it, hi = the
   first token that ends behind it (hi = lo + 1: in the gap behind token lo; hi = lo: INSIDE token lo).
   [proc_spec D dd lo hi lastk] (dd a procedure declaration whose first token has index D, lastk the kind
   of the token `token_before` returned) is one of seven [shape]s; [render] turns it into the answer:
     ANull null | AVars the variables of the local table | AStmt [new_stmt] (statement starters, variables,
     procedures) | AElse the `else` starters ++ AStmt | AVarStmt the `var` starters ++ AStmt | ATypes the type
     entries | ARef [`ref`].
   The equations that define it (a + .. : token indices; [inside a n lo hi]: a <= lo and hi < a + n, the
   position lies in the text range of the n tokens from a on; [else_or pi k x] = AElse if pi and k is `}`,
   x otherwise; [in_stmts_spec b o lo]: the first statement of b other than `;` starts at or before token lo): *)
Theorem C16_classifier_equations :
  (forall c a lo hi k pi, st_spec (SEmp c) a lo hi k pi = else_or pi k AStmt) /\
  (forall v c1 e c2 a lo hi k pi,
     st_spec (SAsg v c1 e c2) a lo hi k pi = else_or pi k (vars_if (a + length (fl_var v) + length c1 <? hi))) /\
  (forall c1 f c2 args c3 c4 a lo hi k pi,
     st_spec (SCal c1 f c2 args c3 c4) a lo hi k pi = else_or pi k (vars_if (a + length c1 + 1 + length c2 <? hi))) /\
  (forall c1 c2 e c3 t a lo hi k pi,
     st_spec (SIfT c1 c2 e c3 t) a lo hi k pi =
     else_or pi k
       (let ot := a + length c1 + 1 + length c2 + 1 + length (fl_cmp e) + length c3 + 1 in
        if inside ot (length (fl_stmt t)) lo hi then st_spec t ot lo hi k false
        else vars_if (a + length c1 + 1 + length c2 <? hi))) /\
  (forall c1 c2 e c3 t c4 s a lo hi k pi,
     st_spec (SIfE c1 c2 e c3 t c4 s) a lo hi k pi =
     else_or pi k
       (let ot := a + length c1 + 1 + length c2 + 1 + length (fl_cmp e) + length c3 + 1 in
        let os := ot + length (fl_stmt t) + length c4 + 1 in
        if inside ot (length (fl_stmt t)) lo hi then st_spec t ot lo hi k false
        else if inside os (length (fl_stmt s)) lo hi then st_spec s os lo hi k false
        else vars_if (a + length c1 + 1 + length c2 <? hi))) /\
  (forall c1 c2 e c3 b a lo hi k pi,
     st_spec (SWhl c1 c2 e c3 b) a lo hi k pi =
     else_or pi k
       (let ob := a + length c1 + 1 + length c2 + 1 + length (fl_cmp e) + length c3 + 1 in
        if inside ob (length (fl_stmt b)) lo hi then st_spec b ob lo hi k false
        else vars_if (a + length c1 + 1 + length c2 <? hi))) /\
  (forall c1 b c2 a lo hi k pi,
     st_spec (SBlk c1 b c2) a lo hi k pi = else_or pi k (sts_spec b (a + length c1 + 1) lo hi k false)) /\
  (forall a lo hi k pi, sts_spec SNil a lo hi k pi = AStmt) /\
  (forall s r a lo hi k pi,
     sts_spec (SCons s r) a lo hi k pi =
     if inside a (length (fl_stmt s)) lo hi then st_spec s a lo hi k pi
     else sts_spec r (a + length (fl_stmt s)) lo hi k (is_ifa s)) /\
  (forall D c1 c2 x c3 ps c4 c5 vs b c6 lo hi k,
     proc_spec D (DProc c1 c2 x c3 ps c4 c5 vs b c6) lo hi k =
     let o := D + length (proc_head c1 c2 x c3 ps c4 c5) + length (flat_map fl_vardecl vs) in
     if lo <? D + length (proc_sig c1 c2 x c3 ps c4) then sig_answer k
     else if in_stmts_spec b o lo then sts_spec b o lo hi k false
     else decl_answer k).
Proof. exact spec_equations. Qed.
Print Assumptions C16_classifier_equations.

(* (6) EVERY cursor index c in the white space of a procedure declaration - between two adjacent tokens
   tprev (index m, a token of the declaration; comments are tokens) and tnext, te tprev <= c <= ts tnext; the
   position directly behind the closing brace included - is decided by [proc_spec]:
     te tprev < c   (at least one character between tprev and the cursor): lo = m, hi = m + 1, last = tprev;
     c = te tprev   (the cursor directly behind tprev; `correct_index` moves the position INTO tprev):
                    lo = hi = m, and last = tprev if tprev has two characters or more, the token in front
                    of tprev if it has one.
   The theorems (S), (S'), (T) above and all theorems below are instances. *)
Theorem C16_body_positions_classified : forall (p : aprog) (G : gtable) (t : text) (toks : list token) (d : doc),
  prog_ok p = true -> well_typed (expected p) G ->
  lex t = Some toks -> map tk toks = flatten p ++ [Eof] -> new_doc_res t = ODone d ->
  forall l1 c1 c2 x c3 ps c4 c5 vs b c6 l2,
    a_decls p = l1 ++ DProc c1 c2 x c3 ps c4 c5 vs b c6 :: l2 ->
    let dd := DProc c1 c2 x c3 ps c4 c5 vs b c6 in
    let D := length (flat_map fl_decl l1) in
    forall m tprev tnext last line col,
      let c := get_insertion_index line col t in
      let hi := if (te tprev <? c)%N then S m else m in
      (D <= m)%nat -> (hi < D + length (fl_decl dd))%nat ->
      nth_error toks m = Some tprev -> nth_error toks (S m) = Some tnext ->
      (te tprev <= c)%N -> (c <= ts tnext)%N ->
      (((te tprev < c)%N \/ (ts tprev + 1 < te tprev)%N) /\ last = tprev \/
       c = te tprev /\ (ts tprev + 1 = te tprev)%N /\ (D < m)%nat /\ nth_error toks (m - 1) = Some last) ->
      exists pe, lookup G x = Some (GProcE pe) /\ map fst (pe_local pe) = aparams_names ps ++ map v_x vs /\
        propose d line col = ROk (render (Some (pe_local pe)) G (proc_spec D dd m hi (tk last))).
Proof. exact propose_procedure_positions. Qed.
Print Assumptions C16_body_positions_classified.

(* (1) the cursor directly behind a token: the half c = te tprev of the classification on its own *)
Theorem C16_directly_behind_token : forall (p : aprog) (G : gtable) (t : text) (toks : list token) (d : doc),
  prog_ok p = true -> well_typed (expected p) G ->
  lex t = Some toks -> map tk toks = flatten p ++ [Eof] -> new_doc_res t = ODone d ->
  forall l1 c1 c2 x c3 ps c4 c5 vs b c6 l2,
    a_decls p = l1 ++ DProc c1 c2 x c3 ps c4 c5 vs b c6 :: l2 ->
    let dd := DProc c1 c2 x c3 ps c4 c5 vs b c6 in
    let D := length (flat_map fl_decl l1) in
    forall m tprev last line col,
      (D <= m)%nat -> (m < D + length (fl_decl dd))%nat ->
      nth_error toks m = Some tprev -> get_insertion_index line col t = te tprev ->
      ((ts tprev + 1 < te tprev)%N /\ last = tprev \/
       (ts tprev + 1 = te tprev)%N /\ (D < m)%nat /\ nth_error toks (m - 1) = Some last) ->
      exists pe, lookup G x = Some (GProcE pe) /\ map fst (pe_local pe) = aparams_names ps ++ map v_x vs /\
        propose d line col = ROk (render (Some (pe_local pe)) G (proc_spec D dd m m (tk last))).
Proof. exact propose_procedure_behind. Qed.
Print Assumptions C16_directly_behind_token.

(* ---- per kind of tprev.  From here on s is a top-level statement of the body (behind the statements b1),
   s' a statement nested in s at any depth - through blocks, branches of `if`, bodies of `while`; s' = s is
   allowed ([snest s g s']: token g of s is the first token of s', leading comments included), and
   A = [stmt_index ..] is the index of the first token of s' in the token vector ---- *)
Theorem C16_stmt_index : forall l1 c1 c2 x c3 ps c4 c5 vs b1 g,
  stmt_index l1 c1 c2 x c3 ps c4 c5 vs b1 g =
  (length (flat_map fl_decl l1) + length (proc_head c1 c2 x c3 ps c4 c5) + length (flat_map fl_vardecl vs)
   + length (fl_stmts b1) + g)%nat.
Proof. exact stmt_index_eq. Qed.
Print Assumptions C16_stmt_index.

(* (2) a comment between the previous code token and the cursor: tprev is a comment token, the cursor anywhere
   behind it up to the next token - the position directly behind the comment, i.e. the start of the next line,
   included: te tprev <= c <= ts tnext.
   Statement positions: tprev is one of the comments in front of the first token of the statement s' ([leadc s'])
   and a statement other than `;` starts at or in front of it: the statement proposals if s' is `;` or a block,
   NULL in front of an assignment, a call, an `if`, a `while` *)
Theorem C16_comment_before_cursor : forall (p : aprog) (G : gtable) (t : text) (toks : list token) (d : doc),
  prog_ok p = true -> well_typed (expected p) G ->
  lex t = Some toks -> map tk toks = flatten p ++ [Eof] -> new_doc_res t = ODone d ->
  forall l1 c1 c2 x c3 ps c4 c5 vs b1 s b2 c6 l2 g s',
    a_decls p = l1 ++ DProc c1 c2 x c3 ps c4 c5 vs (sapp b1 (SCons s b2)) c6 :: l2 ->
    snest s g s' ->
    forall i tprev tnext line col,
      has_real b1 = true \/ is_emp s = false ->
      (i < length (leadc s'))%nat ->
      nth_error toks (stmt_index l1 c1 c2 x c3 ps c4 c5 vs b1 g + i) = Some tprev ->
      nth_error toks (S (stmt_index l1 c1 c2 x c3 ps c4 c5 vs b1 g + i)) = Some tnext ->
      (te tprev <= get_insertion_index line col t)%N -> (get_insertion_index line col t <= ts tnext)%N ->
      exists pe, lookup G x = Some (GProcE pe) /\ map fst (pe_local pe) = aparams_names ps ++ map v_x vs /\
        propose d line col = ROk (match s' with
                                  | SEmp _ | SBlk _ _ _ => Some (new_stmt (Some (pe_local pe)) G)
                                  | _ => None
                                  end).
Proof. exact propose_comment_stmt_lead. Qed.
Print Assumptions C16_comment_before_cursor.

(* (3) the cursor at index 0 of a text that starts with its first token: null; in a text that starts with white
   space the declaration starters, as everywhere in front of the first token ([C16_toplevel_start_valid]) *)
Theorem C16_text_start : forall (p : aprog) (G : gtable) (t : text) (toks : list token) (d : doc),
  prog_ok p = true -> well_typed (expected p) G ->
  lex t = Some toks -> map tk toks = flatten p ++ [Eof] -> new_doc_res t = ODone d ->
  forall first line col,
    nth_error toks 0 = Some first -> ts first = 0%N -> get_insertion_index line col t = 0%N ->
    propose d line col = ROk None.
Proof. exact propose_text_start. Qed.
Print Assumptions C16_text_start.

(* (4) the white space in front of the then-branch / the else-branch of an `if` or of the body of a `while`
   ([branch_start s' r]: s' is the `if` / `while`, token r of s' the first token of the branch, leading comments
   included; tprev = token r - 1 is the `)` / the `else`): exactly the variables of the procedure, no procedure, no
   statement starter - whether the branch is a block or not *)
Theorem C16_branch_statement_start : forall (p : aprog) (G : gtable) (t : text) (toks : list token) (d : doc),
  prog_ok p = true -> well_typed (expected p) G ->
  lex t = Some toks -> map tk toks = flatten p ++ [Eof] -> new_doc_res t = ODone d ->
  forall l1 c1 c2 x c3 ps c4 c5 vs b1 s b2 c6 l2 g s',
    a_decls p = l1 ++ DProc c1 c2 x c3 ps c4 c5 vs (sapp b1 (SCons s b2)) c6 :: l2 ->
    snest s g s' ->
    forall r tprev tnext line col,
      branch_start s' r ->
      nth_error toks (stmt_index l1 c1 c2 x c3 ps c4 c5 vs b1 g + r - 1) = Some tprev ->
      nth_error toks (stmt_index l1 c1 c2 x c3 ps c4 c5 vs b1 g + r) = Some tnext ->
      (te tprev < get_insertion_index line col t)%N -> (get_insertion_index line col t <= ts tnext)%N ->
      exists pe, lookup G x = Some (GProcE pe) /\ map fst (pe_local pe) = aparams_names ps ++ map v_x vs /\
        propose d line col = ROk (Some (search_variables (pe_local pe))).
Proof. exact propose_branch_start. Qed.
Print Assumptions C16_branch_statement_start.

(* (5) the white space inside an assignment LEFT of `:=` - behind the variable name, behind `[`, behind a `(` of an
   index expression, in front of `:=` (tprev = token i of the assignment, tnext = token i + 1 at most the `:=`): null *)
Theorem C16_paren_left_of_assign : forall (p : aprog) (G : gtable) (t : text) (toks : list token) (d : doc),
  prog_ok p = true -> well_typed (expected p) G ->
  lex t = Some toks -> map tk toks = flatten p ++ [Eof] -> new_doc_res t = ODone d ->
  forall l1 c1 c2 x c3 ps c4 c5 vs b1 s b2 c6 l2 g v ca e cb,
    a_decls p = l1 ++ DProc c1 c2 x c3 ps c4 c5 vs (sapp b1 (SCons s b2)) c6 :: l2 ->
    snest s g (SAsg v ca e cb) ->
    forall i tprev tnext line col,
      (S i <= length (fl_var v) + length ca)%nat ->
      nth_error toks (stmt_index l1 c1 c2 x c3 ps c4 c5 vs b1 g + i) = Some tprev ->
      nth_error toks (S (stmt_index l1 c1 c2 x c3 ps c4 c5 vs b1 g + i)) = Some tnext ->
      (te tprev < get_insertion_index line col t)%N -> (get_insertion_index line col t <= ts tnext)%N ->
      propose d line col = ROk None.
Proof. exact propose_left_of_assign. Qed.
Print Assumptions C16_paren_left_of_assign.

(* the shapes used above *)
Theorem C16_position_shapes :
  (forall s q, vars_from s q <->
     (exists v ca e cb, s = SAsg v ca e cb /\ q = (length (fl_var v) + length ca)%nat) \/
     (exists ca f cb args cc cd, s = SCal ca f cb args cc cd /\ q = (length ca + 1 + length cb)%nat)) /\
  (forall s q, head_paren s q <->
     (exists ca f cb args cc cd, s = SCal ca f cb args cc cd /\ q = (length ca + 1 + length cb)%nat) \/
     (exists ca cb e cc u, s = SIfT ca cb e cc u /\ q = (length ca + 1 + length cb)%nat) \/
     (exists ca cb e cc u cd w, s = SIfE ca cb e cc u cd w /\ q = (length ca + 1 + length cb)%nat) \/
     (exists ca cb e cc u, s = SWhl ca cb e cc u /\ q = (length ca + 1 + length cb)%nat)) /\
  (forall s r, branch_start s r <->
     (exists ca cb e cc u, (s = SIfT ca cb e cc u \/ s = SWhl ca cb e cc u) /\
        r = (length ca + 1 + length cb + 1 + length (fl_cmp e) + length cc + 1)%nat) \/
     (exists ca cb e cc u cd w, s = SIfE ca cb e cc u cd w /\
        (r = (length ca + 1 + length cb + 1 + length (fl_cmp e) + length cc + 1)%nat \/
         r = (length ca + 1 + length cb + 1 + length (fl_cmp e) + length cc + 1 + length (fl_stmt u) + length cd + 1)%nat))).
Proof. exact position_shapes. Qed.
Print Assumptions C16_position_shapes.
