(* C16 - completion proposals respect scope and syntactic position.
   Statements only; every proof is `exact <lemma>` (Proofs/CompletionProofs.v).  The theorems are
   about the model Model/Completion.v of lsp4spl/src/features/completion.rs and hold for ALL
   documents (also malformed ones) and ALL cursor positions.

   PROVED: whatever `propose` answers, (1) the proposed variables are none or exactly the entries of
   the local table of the procedure ENTRY named like the declaration that contains the corrected
   cursor position - in particular no name local to another procedure is ever proposed; (2) the
   proposed procedures are none or exactly the procedure entries of the global table; (3) the
   proposed types are none, `int`, or exactly the type entries of the global table; (4) outside
   every declaration the answer is the declaration starters, with the main snippet iff `main` is
   not a procedure of the table.
   (5) under the executable tree well-formedness predicate [compl_wf_b] the handler never panics.
   NOT proved (validated by correspondence + oracle only): WHICH of the alternatives is taken at
   which syntactic position (the position classifier), that the local table of a procedure holds
   exactly its parameters and variables, and that [compl_wf_b] holds for the trees the parser builds
   (the judge evaluates it on every request: command 51 adds 4 to its flag when it fails).  The full functional statement
   ([C16_full_statement]) is stated on the model and REFUTED by a witness of the known finding
   C16-cursor-directly-behind-token; outside the known classes it is validated by oracle only. *)
From Spl Require Import Model.Completion Proofs.CompletionProofs.

Theorem C16_shape : forall d line col r,
  propose d line col = ROk r -> shape_ok (consulted_table d line col) (d_table d) r.
Proof. exact propose_shape. Qed.
Print Assumptions C16_shape.

Theorem C16_no_leak : forall d line col items it,
  propose d line col = ROk (Some items) -> In it items -> it_kind it = kind_variable ->
  exists pd off name p,
    find_decl (d_toks d) (cursor_position d line col) (pg_decls (d_ast d)) = ROk (Some (GProc pd, off)) /\
    pd_name pd = Some name /\ lookup (d_table d) (id_val name) = Some (GProcE p) /\
    In it (search_variables (pe_local p)).
Proof. exact propose_variables_local. Qed.
Print Assumptions C16_no_leak.

Theorem C16_toplevel : forall d line col r,
  propose d line col = ROk r ->
  find_decl (d_toks d) (cursor_position d line col) (pg_decls (d_ast d)) = ROk None ->
  last_type_unfinished d = false ->
  r = Some (new_global_declaration (d_table d)).
Proof. exact propose_toplevel. Qed.
Print Assumptions C16_toplevel.

Theorem C16_main_snippet : forall g,
  In snip_main (new_global_declaration g) <-> ~ exists p, lookup g s_main = Some (GProcE p).
Proof. exact main_snippet_iff. Qed.
Print Assumptions C16_main_snippet.

Theorem C16_toplevel_only_starters : forall g,
  filter is_var (new_global_declaration g) = [] /\ filter is_fun (new_global_declaration g) = [] /\
  filter is_struct (new_global_declaration g) = [].
Proof. exact toplevel_no_entries. Qed.
Print Assumptions C16_toplevel_only_starters.

(* robustness: under the executable well-formedness predicate on the tree (every global declaration and
   every statement has a non-empty range that starts at its own Reference and lies inside its parent /
   the token vector) no slice, index or `expect` of the handler can fire *)
Theorem C16_no_panic : forall d line col, compl_wf_b d = true -> exists r, propose d line col = ROk r.
Proof. exact propose_no_panic. Qed.
Print Assumptions C16_no_panic.

(* ---- the full functional statement ---- *)
(* In a document without diagnostics (a missing `main` is tolerated), at every cursor position of one
   of the four classes of the property - decided from the tokens and the syntax tree by
   [position_class]: PStmt = a statement start or the gap in front of a closing brace inside a
   procedure body, PExpr = behind `:=` or behind a `(` of a body, PType = behind `:` in a procedure
   declaration, PTop = between / before / behind the global declarations; each class includes the
   position directly behind the token and positions behind comments - the answer is what the property
   prescribes ([meets]): PStmt: variables = the local table of that procedure's entry and procedures =
   all procedure entries; PExpr: those variables; PType: types = all type entries (declared + int);
   PTop: exactly the declaration starters (main snippet iff main is absent). *)
Definition C16_full_statement : Prop :=
  forall t d line col c,
    new_doc t = Done d -> valid_doc d = true ->
    position_class d (get_insertion_index line col (d_text d)) = Some c ->
    meets d c (propose d line col) = true.

(* The faithful model REFUTES it: `proc main() { var x: int; x :=1; }` at 0:30, directly behind `:=`, is
   answered with `null` (known finding C16-cursor-directly-behind-token; the other known findings of
   C16 are further classes of counterexamples).  The check decides the statement for every document
   and oracle position (judge command 51, flag) in agreement with the independent python oracle. *)
Theorem C16_full_statement_refuted : ~ C16_full_statement.
Proof. exact completion_full_statement_refuted. Qed.
Print Assumptions C16_full_statement_refuted.

(* ---- non-vacuity: `proc p(a: int) { var x: int; x := a; }` LF `proc main() { }` ---- *)
Definition c16_text : text :=
  [112; 114; 111; 99; 32; 112; 40; 97; 58; 32; 105; 110; 116; 41; 32; 123; 32; 118; 97; 114; 32; 120; 58; 32;
   105; 110; 116; 59; 32; 120; 32; 58; 61; 32; 97; 59; 32; 125; 10;
   112; 114; 111; 99; 32; 109; 97; 105; 110; 40; 41; 32; 123; 32; 125]%N.

Definition c16_answer (line col : N) : option (list (text * N)) :=
  match new_doc c16_text with
  | Done d => match propose d line col with
              | ROk (Some items) => Some (map (fun i => (it_label i, it_kind i)) items)
              | _ => None
              end
  | _ => None
  end.

(* after `:= ` (0:34): exactly the parameter and the variable of p *)
Example C16_example_vars : c16_answer 0 34 = Some [([97], 6); ([120], 6)]%N.
Proof. vm_compute. reflexivity. Qed.

(* statement start in p (0:29, in front of `x := a;`): var starters, statement starters, a, x, and all 12 procedures *)
Example C16_example_stmt :
  option_map (fun l => (length l, filter (fun x => (snd x =? 6)%N) l)) (c16_answer 0 29)
  = Some (20%nat, [([97], 6); ([120], 6)])%N.
Proof. vm_compute. reflexivity. Qed.

(* in the body of main (1:14): no variable at all - the names a, x of p are not proposed *)
Example C16_example_no_leak :
  option_map (fun l => filter (fun x => (snd x =? 6)%N) l) (c16_answer 1 14) = Some [].
Proof. vm_compute. reflexivity. Qed.

(* end of the text behind a blank line would be top level; here 1:15 (behind `}` + nothing) is still
   inside main; top level needs white space: use the line break between the declarations (0:38 is the
   end of line 0, directly behind `}`; the position 1:0 has the line break in front of it) *)
Example C16_example_toplevel :
  c16_answer 1 0 = Some [([112; 114; 111; 99], 15); ([116; 121; 112; 101], 15); ([112; 114; 111; 99], 14); ([116; 121; 112; 101], 14)]%N.
Proof. vm_compute. reflexivity. Qed.
