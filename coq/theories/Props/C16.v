(* C16 - placeholder while the proofs are being written; replaced by the real statements. *)
From Spl Require Import Model.Completion.
Theorem C16_placeholder : True. Proof. exact I. Qed.
Print Assumptions C16_placeholder.
