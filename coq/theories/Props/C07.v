(* C07 - incremental lexing yields the batch token stream and an exact change window.
   Statements only.  The full statement is Spec.LexUpdateSpec.C07_full_statement. *)
From Spl Require Import Spec.LexUpdateSpec Proofs.LexUpdateSmall.

(* Bounded instance, decided by the kernel's VM: for every text of length <= 2 over the 16-symbol
   alphabet that covers every look-ahead class, every split a ++ d ++ b and every insertion of
   length <= 1, `lex_update` returns the fresh token stream and a truthful window. *)
Theorem C07_small_scope : sweep 2 1 = true.
Proof. exact sweep_2_1. Qed.
Print Assumptions C07_small_scope.
