(* C07 - incremental lexing yields the batch token stream and an exact change window.
   Statements only. *)
From Spl Require Import Spec.LexUpdateSpec Proofs.LexLocality Proofs.LexUpdateSmall Proofs.LexUpdateProofs.

(* For ALL texts a ++ d ++ b, all replacements of d by ins: updating the token stream of the old
   text returns exactly the tokens of a fresh tokenisation of the new text (kinds, values, ranges,
   attached lexical errors) - never a panic, never out of fuel - and the reported window is
   truthful: the tokens before it are the old ones untouched, the tokens after it are the old
   ones shifted by the length difference of the edit, and the lengths add up. *)
Theorem C07_update_is_lex :
  forall (a d b ins : text) (toks_old : list token),
    lex (a ++ d ++ b) = Some toks_old ->
    exists toks_new ds de n,
      lex (a ++ ins ++ b) = Some toks_new /\
      lex_update (a ++ ins ++ b) toks_old (blen a) (blen a + blen d) ins = UDone toks_new ds de n /\
      Truthful toks_old toks_new ds de n (blen ins) (blen d).
Proof. exact lex_update_correct. Qed.
Print Assumptions C07_update_is_lex.

(* The look-ahead table is justified kind by kind: a token is reproduced on every text that
   agrees with the original on the token's own characters and, for look-ahead 1, on the next
   character (or on being at the end of the text). *)
Theorem C07_locality : forall s k e lx r r',
  lex_raw s = Some (k, e, lx, r) -> (look_ahead k = 1 -> agree1 r r') ->
  lex_raw (lx ++ r') = Some (k, e, lx, r').
Proof. exact lex_raw_local. Qed.
Print Assumptions C07_locality.

(* Bounded instance decided by the kernel's VM (a cross-check of the statement itself): every text
   of length <= 2 over the 16-symbol alphabet, every split, every insertion of length <= 1. *)
Theorem C07_small_scope : sweep 2 1 = true.
Proof. exact sweep_2_1. Qed.
Print Assumptions C07_small_scope.

(* non-vacuity: a change inside a comment at the end of the text that turns it into code *)
Example C07_example :
  c07_instance_b [97; 32] [47; 47] [120; 39] [10] = true.
Proof. vm_compute. reflexivity. Qed.
