(* C15 - semantic tokens are well-formed and agree with lexical class and binding kind.
   Statements only; every proof is `exact <lemma>` (Proofs/SemTokProofs.v).  The theorems are about
   the model Model/SemTok.v of lsp4spl/src/features/semantic_tokens.rs; [doc_wf_b] is the explicit,
   executable well-formedness predicate on analysed documents (tokens ordered / sliceable / not
   starting at a line terminator; declarations in source order with in-bounds ranges; a
   declaration's name ends with an identifier token).

   PROVED here, for ALL documents satisfying [doc_wf_b]: no panic (in particular none of the two
   u32 subtractions underflows), the decoded stream is the image of an order-preserving
   subsequence of the document's tokens (each decoded token = position of the first byte and
   UTF-16 length of ONE lexical token), strictly increasing, byte ranges pairwise disjoint,
   keywords / numbers / comments carry exactly their lexical class, and every keyword / number /
   comment inside a declaration is reported.  Also proved: the token half of [doc_wf_b] for every
   output of `lex`, the ordering part of the tree half for every output of `parse`.
   Also proved: build/analyze keep offsets and ranges, so for every document produced by
   AnalyzedSource::new [doc_wf_b] reduces to [decls_names_b] (C15_new_doc_wf, C15_new_doc_stream).
   NOT proved (validated on every generated document by the judge's wf flag): that declaration names
   end with identifier tokens ([decls_names_b]) for parser outputs.  The classification of identifiers by binding
   kind ([C15_full_statement]) is stated on the model and REFUTED by a witness that the known
   findings C15-type-use-shadowed-by-local / C15-trailing-comment describe; outside those two
   classes it is validated by oracle only. *)
From Coq Require Import Sorting.Sorted.
From Spl Require Import Model.SemTok Proofs.SemTokProofs Proofs.ParserTotal.

Theorem C15_no_panic : forall d, doc_wf_b d = true -> exists data, semantic_tokens d = SOk data.
Proof. exact semtok_no_panic. Qed.
Print Assumptions C15_no_panic.

Theorem C15_coincide : forall d data,
  doc_wf_b d = true -> semantic_tokens d = SOk data ->
  decode data = map (tok_view (d_text d)) (emitted d) /\ Subseq (map fst (emitted d)) (d_toks d).
Proof. exact semtok_coincide. Qed.
Print Assumptions C15_coincide.

Theorem C15_increasing : forall d data,
  doc_wf_b d = true -> semantic_tokens d = SOk data ->
  StronglySorted (fun a b => pos_lt (at_pos a) (at_pos b)) (decode data).
Proof. exact semtok_increasing. Qed.
Print Assumptions C15_increasing.

Theorem C15_disjoint : forall d,
  doc_wf_b d = true ->
  StronglySorted (fun k1 k2 : token => (ts k1 < te k1 /\ te k1 <= ts k2)%N) (map fst (emitted d)).
Proof. exact semtok_disjoint. Qed.
Print Assumptions C15_disjoint.

Theorem C15_lexical_class : forall d, doc_wf_b d = true -> Forall lex_ok (emitted d).
Proof. exact semtok_lexical_class. Qed.
Print Assumptions C15_lexical_class.

Theorem C15_lexical_complete : forall d i g off j k c,
  doc_wf_b d = true ->
  nth_error (pg_decls (d_ast d)) i = Some (g, off) ->
  (off + i_s (gdecl_info g) <= j < off + i_e (gdecl_info g))%nat ->
  nth_error (d_toks d) j = Some k -> map_class (tk k) = Some c ->
  In (k, c) (emitted d).
Proof. exact semtok_lexical_complete. Qed.
Print Assumptions C15_lexical_complete.

Theorem C15_tokens_wf : forall s toks, lex s = Some toks -> toks_wf_from s 0 toks = true.
Proof. exact lex_toks_wf. Qed.
Print Assumptions C15_tokens_wf.

Theorem C15_decls_ordered : forall toks prog,
  EofLast toks -> parse toks = Done prog -> decls_ordered_b (length toks) 0 (pg_decls prog) = true.
Proof. exact parse_decls_ordered. Qed.
Print Assumptions C15_decls_ordered.

(* for the documents the server holds (AnalyzedSource::new) the well-formedness predicate reduces to
   the condition on declaration names (the rest is proved: C06 tiling, parser synchronisation,
   build/analyze keep offsets and ranges) ... *)
Theorem C15_new_doc_wf : forall t d,
  new_doc t = Done d -> doc_wf_b d = decls_names_b (d_toks d) (pg_decls (d_ast d)).
Proof. exact new_doc_wf. Qed.
Print Assumptions C15_new_doc_wf.

(* ... so for every text, provided the names of the declarations end with identifier tokens: *)
Theorem C15_new_doc_stream : forall t d,
  new_doc t = Done d -> decls_names_b (d_toks d) (pg_decls (d_ast d)) = true ->
  exists data,
    semantic_tokens d = SOk data /\
    decode data = map (tok_view t) (emitted d) /\
    Subseq (map fst (emitted d)) (d_toks d) /\
    StronglySorted (fun a b => pos_lt (at_pos a) (at_pos b)) (decode data) /\
    Forall lex_ok (emitted d).
Proof. exact new_doc_stream. Qed.
Print Assumptions C15_new_doc_stream.

(* ---- the classification part ---- *)
(* In a document without diagnostics the answer reports (a) every keyword / number / comment of the
   text with its lexical class and (b) every identifier occurrence of the syntax tree ([doc_occs]:
   the token index and the class prescribed by the occurrence's syntactic role - declared name with
   the declaration modifier, type position, variable position resolved in the procedure's own local
   table, callee) with that class.  With C15_coincide / C15_increasing / C15_lexical_class (nothing
   else is reported, in text order) this pins the whole answer. *)
Definition C15_full_statement : Prop :=
  forall t d data,
    new_doc t = Done d -> doc_errors d = Done [] -> semantic_tokens d = SOk data ->
    (forall j k c, nth_error (d_toks d) j = Some k -> map_class (tk k) = Some c ->
                   In (tok_view (d_text d) (k, c)) (decode data)) /\
    (forall j k c, In (j, Some c) (doc_occs d) -> nth_error (d_toks d) j = Some k ->
                   In (tok_view (d_text d) (k, c)) (decode data)).

(* The faithful model REFUTES it: in `type t = int; proc p(t: t) { } proc main() { }` (no diagnostics)
   the second `t` of `t: t` stands in type position and is reported as a parameter, because the handler
   classifies identifiers by looking their spelling up (known finding C15-type-use-shadowed-by-local;
   part (a) fails as well, on comments behind the last declaration: C15-trailing-comment).  The check
   replays this witness on the implementation and decides both parts of the statement for every
   generated well-typed program (judge command 50), in agreement with the independent python oracle. *)
Theorem C15_full_statement_refuted : ~ C15_full_statement.
Proof. exact semtok_full_statement_refuted. Qed.
Print Assumptions C15_full_statement_refuted.

(* ---- non-vacuity: `type t = int; // é€😀 c` LF `proc f(p: t) { var v: t; v := p; }` ---- *)
Definition c15_text : text :=
  [116; 121; 112; 101; 32; 116; 32; 61; 32; 105; 110; 116; 59; 32; 47; 47; 32; 233; 8364; 128512; 32; 99; 10;
   112; 114; 111; 99; 32; 102; 40; 112; 58; 32; 116; 41; 32; 123; 32; 118; 97; 114; 32; 118; 58; 32; 116; 59; 32;
   118; 32; 58; 61; 32; 112; 59; 32; 125]%N.

Definition c15_doc : option doc := match new_doc c15_text with Done d => Some d | _ => None end.

Example C15_example_wf : option_map doc_wf_b c15_doc = Some true.
Proof. vm_compute. reflexivity. Qed.

Example C15_example_stream :
  option_map (fun d => match semantic_tokens d with SOk data => Some (map (fun a => (at_line a, at_col a, at_len a, at_ty a, at_mod a)) (decode data)) | SFail _ => None end) c15_doc
  = Some (Some [ (0, 0, 4, 1, 0); (0, 5, 1, 3, 1); (0, 9, 3, 3, 0); (0, 14, 10, 0, 0);
                 (1, 0, 4, 1, 0); (1, 5, 1, 4, 1); (1, 7, 1, 5, 1); (1, 10, 1, 3, 0);
                 (1, 15, 3, 1, 0); (1, 19, 1, 6, 1); (1, 22, 1, 3, 0); (1, 25, 1, 6, 0); (1, 30, 1, 5, 0) ])%N.
Proof. vm_compute. reflexivity. Qed.
