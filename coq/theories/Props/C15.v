(* C15 - semantic tokens are well-formed and agree with lexical class and binding kind.
   Statements only; every proof is `exact <lemma>` (Proofs/SemTokProofs.v, SemTokNames.v, SemTokValid.v).  The theorems are about
   the model Model/SemTok.v of lsp4spl/src/features/semantic_tokens.rs (as of /repo e4d8780:
   identifiers in type expressions of a procedure are looked up globally; the tokens behind the
   last declaration are walked too); [doc_wf_b] is the explicit, executable well-formedness
   predicate on analysed documents (tokens ordered / sliceable / not starting at a line
   terminator; declarations in source order with in-bounds ranges; the program's range ends at or
   behind the last declaration - the trailing slice starts there; a declaration's name ends with
   an identifier token).

   PROVED here, for ALL documents satisfying [doc_wf_b]: no panic (in particular none of the two
   u32 subtractions underflows), the decoded stream is the image of an order-preserving
   subsequence of the document's tokens (each decoded token = position of the first byte and
   UTF-16 length of ONE lexical token), strictly increasing, byte ranges pairwise disjoint,
   keywords / numbers / comments carry exactly their lexical class, and every keyword / number /
   comment inside a declaration or in the trailing slice is reported ([emitted] includes the
   trailing slice, so all of these speak about it).  Also proved: the token half of [doc_wf_b] for
   every output of `lex`, the ordering part of the tree half for every output of `parse`;
   build/analyze keep offsets and ranges, so for every document produced by AnalyzedSource::new
   [doc_wf_b] reduces to [decls_names_b] (C15_new_doc_wf), declarations and trailing slice tile
   the token vector (C15_new_doc_covered).  The remaining condition [decls_names_b] - the name of
   a global declaration ends with an identifier token - is proved for every output of `parse`, for
   ALL token lists, valid program or not (Proofs/SemTokNames.v: `ident` builds its node from an
   `Ident` token, comments and keyword in front of it keep the reference position, the offset of a
   top-level Reference is its absolute start): C15_new_doc_names.  Hence EVERY document of
   AnalyzedSource::new satisfies [doc_wf_b] (C15_new_doc_wf_total), all theorems above apply to it
   without hypothesis, and EVERY keyword / number / comment token of the document is in the answer
   with its class (C15_new_doc_stream_total, C15_lexical_reported_everywhere_total = part (a) of
   [C15_full_statement], with or without diagnostics; C15_new_doc_stream and
   C15_lexical_reported_everywhere are the older versions that carry [decls_names_b] as a
   hypothesis).
   PROVED for every DOCUMENT WITHOUT DIAGNOSTICS (end of this file; Proofs/CompleteFeatures.v):
     C15_full_clean    [C15_full_statement] - both parts, (b) = the classification of identifiers by syntactic role
                       ([doc_occs]) - for every document of AnalyzedSource::new whose errors() is empty and none of
                       whose tokens carries a lexical error.  The additional lexical hypothesis is what the
                       COMPLETENESS of the front end needs (Proofs/CompleteFront.v [front_end_complete]: lexical
                       errors - integer literal above u32, `0x` without digits, unterminated character literal -
                       are attached to tokens and never published as diagnostics, and a token vector with an
                       out-of-range literal is not derivable in the grammar; C15_lexical_error_unreported_ex).
     C15_valid_clean   C15_valid for every such document: each identifier occurrence of the document's tree
                       ([program_roles]) is reported with the kind of the entity it is BOUND to and the declaration
                       modifier exactly on the declaring occurrence, and nothing else is reported at its position
     C15_occs_roles    the link between the two vocabularies, for every well-typed tree: an occurrence of [doc_occs]
                       is an occurrence of [program_roles], and the class its role prescribes is the class of the
                       entity it is bound to
   NOT proved: [C15_full_statement] literally, i.e. WITHOUT the lexical hypothesis.  Part (a) holds without any
   hypothesis (C15_lexical_reported_everywhere_total); part (b) on a document with an unpublished lexical error is
   outside the reach of the completeness theorem.  No counterexample is known: the judge (command 50, spec flag)
   decides both parts true on the three kinds of such documents, and on every generated well-typed program in
   agreement with the independent python oracle.  (The former refutation, C15_full_statement_refuted on the
   witness `type t = int; proc p(t: t) { } proc main() { }`, is gone with the repair b909979: the
   witness now evaluates to the demanded stream, C15_example_type_use / _int_hidden / _trailing). *)
From Coq Require Import Sorting.Sorted.
From Spl Require Import Model.SemTok Proofs.SemTokProofs Proofs.ParserTotal.
From Spl Require Import Proofs.GrammarProofs Spec.Typing Proofs.TypingProofs Proofs.HoverProofs Proofs.SemTokValid.
From Spl Require Import Proofs.SemTokNames.

Theorem C15_no_panic : forall d, doc_wf_b d = true -> exists data, semantic_tokens d = SOk data.
Proof. exact semtok_no_panic. Qed.
Print Assumptions C15_no_panic.

Theorem C15_coincide : forall d data,
  doc_wf_b d = true -> semantic_tokens d = SOk data ->
  decode data = map (tok_view (d_text d)) (emitted d) /\ Subseq (map fst (emitted d)) (d_toks d).
Proof. exact semtok_coincide. Qed.
Print Assumptions C15_coincide.

Theorem C15_increasing : forall d data,
  doc_wf_b d = true -> semantic_tokens d = SOk data ->
  StronglySorted (fun a b => pos_lt (at_pos a) (at_pos b)) (decode data).
Proof. exact semtok_increasing. Qed.
Print Assumptions C15_increasing.

Theorem C15_disjoint : forall d,
  doc_wf_b d = true ->
  StronglySorted (fun k1 k2 : token => (ts k1 < te k1 /\ te k1 <= ts k2)%N) (map fst (emitted d)).
Proof. exact semtok_disjoint. Qed.
Print Assumptions C15_disjoint.

Theorem C15_lexical_class : forall d, doc_wf_b d = true -> Forall lex_ok (emitted d).
Proof. exact semtok_lexical_class. Qed.
Print Assumptions C15_lexical_class.

(* [covered d j]: j lies in the token range of a declaration or in the trailing slice
   (trailing_start d <= j) *)
Theorem C15_lexical_complete : forall d j k c,
  doc_wf_b d = true -> covered d j ->
  nth_error (d_toks d) j = Some k -> map_class (tk k) = Some c ->
  In (k, c) (emitted d).
Proof. exact semtok_lexical_complete. Qed.
Print Assumptions C15_lexical_complete.

Theorem C15_tokens_wf : forall s toks, lex s = Some toks -> toks_wf_from s 0 toks = true.
Proof. exact lex_toks_wf. Qed.
Print Assumptions C15_tokens_wf.

Theorem C15_decls_ordered : forall toks prog,
  EofLast toks -> parse toks = Done prog ->
  decls_ordered_b (length toks) 0 (pg_decls prog) (i_e (pg_info prog)) = true.
Proof. exact parse_decls_ordered. Qed.
Print Assumptions C15_decls_ordered.

(* for the documents the server holds (AnalyzedSource::new) the well-formedness predicate reduces to
   the condition on declaration names (the rest is proved: C06 tiling, parser synchronisation,
   build/analyze keep offsets and ranges) ... *)
Theorem C15_new_doc_wf : forall t d,
  new_doc t = Done d -> doc_wf_b d = decls_names_b (d_toks d) (pg_decls (d_ast d)).
Proof. exact new_doc_wf. Qed.
Print Assumptions C15_new_doc_wf.

(* ... and the handler walks over every token of the document: *)
Theorem C15_new_doc_covered : forall t d, new_doc t = Done d -> forall j, covered d j.
Proof. exact new_doc_covered. Qed.
Print Assumptions C15_new_doc_covered.

(* ... so for every text, provided the names of the declarations end with identifier tokens: *)
Theorem C15_new_doc_stream : forall t d,
  new_doc t = Done d -> decls_names_b (d_toks d) (pg_decls (d_ast d)) = true ->
  exists data,
    semantic_tokens d = SOk data /\
    decode data = map (tok_view t) (emitted d) /\
    Subseq (map fst (emitted d)) (d_toks d) /\
    StronglySorted (fun a b => pos_lt (at_pos a) (at_pos b)) (decode data) /\
    Forall lex_ok (emitted d) /\
    (forall j k c, nth_error (d_toks d) j = Some k -> map_class (tk k) = Some c -> In (k, c) (emitted d)).
Proof. exact new_doc_stream. Qed.
Print Assumptions C15_new_doc_stream.

(* part (a) of C15_full_statement below, without its hypothesis on diagnostics: every keyword /
   number / comment token of the document - also a comment behind the last declaration - is in the
   decoded answer with its lexical class *)
Theorem C15_lexical_reported_everywhere : forall t d data,
  new_doc t = Done d -> decls_names_b (d_toks d) (pg_decls (d_ast d)) = true ->
  semantic_tokens d = SOk data ->
  forall j k c, nth_error (d_toks d) j = Some k -> map_class (tk k) = Some c ->
                In (tok_view (d_text d) (k, c)) (decode data).
Proof. exact new_doc_complete. Qed.
Print Assumptions C15_lexical_reported_everywhere.

(* ---- the condition on declaration names holds for every parser output, so the hypotheses above
   are void for the documents the server holds ---- *)
Theorem C15_new_doc_names : forall t d,
  new_doc t = Done d -> decls_names_b (d_toks d) (pg_decls (d_ast d)) = true.
Proof. exact new_doc_names. Qed.
Print Assumptions C15_new_doc_names.

Theorem C15_new_doc_wf_total : forall t d, new_doc t = Done d -> doc_wf_b d = true.
Proof. exact new_doc_wf_total. Qed.
Print Assumptions C15_new_doc_wf_total.

(* for every text: *)
Theorem C15_new_doc_stream_total : forall t d,
  new_doc t = Done d ->
  exists data,
    semantic_tokens d = SOk data /\
    decode data = map (tok_view t) (emitted d) /\
    Subseq (map fst (emitted d)) (d_toks d) /\
    StronglySorted (fun a b => pos_lt (at_pos a) (at_pos b)) (decode data) /\
    Forall lex_ok (emitted d) /\
    (forall j k c, nth_error (d_toks d) j = Some k -> map_class (tk k) = Some c -> In (k, c) (emitted d)).
Proof. exact new_doc_stream_total. Qed.
Print Assumptions C15_new_doc_stream_total.

(* part (a) of C15_full_statement, without any hypothesis on the document *)
Theorem C15_lexical_reported_everywhere_total : forall t d data,
  new_doc t = Done d -> semantic_tokens d = SOk data ->
  forall j k c, nth_error (d_toks d) j = Some k -> map_class (tk k) = Some c ->
                In (tok_view (d_text d) (k, c)) (decode data).
Proof. exact new_doc_complete_total. Qed.
Print Assumptions C15_lexical_reported_everywhere_total.

(* ---- the binding half, PROVED for every valid program in every layout ----
   p ranges over the abstract programs of the grammar, G over the global tables the declarative static
   semantics accepts for the mandated tree, t over the texts that lex to p's token kinds (all layouts of
   p): the formulation of C03_no_false_positive, C14_hover_valid and C17_valid.  For every identifier
   occurrence of the tree with its syntactic role ([program_roles]: owner declaration, token number k,
   spelling x, scope sc, dcl = "this occurrence declares the name") the decoded answer contains the token
   with the kind of the entry the occurrence is BOUND to under SPL scoping ([binding], the one of
   C14_hover_valid: type / function / parameter / variable) and the declaration modifier set exactly
   when dcl holds, and nothing else is reported at that position.  Together with C15_coincide /
   C15_increasing / C15_lexical_class / C15_lexical_reported_everywhere (which hold for the document
   of a valid program without further hypothesis: C15_valid_doc_wf) this pins the whole answer. *)
Theorem C15_valid_doc_wf : forall (p : aprog) (G : gtable) (t : text) (toks : list token) (d : doc),
  prog_ok p = true -> well_typed (expected p) G -> lex t = Some toks -> map tk toks = flatten p ++ [Eof] ->
  new_doc_res t = ODone d ->
  decls_names_b (d_toks d) (pg_decls (d_ast d)) = true /\ doc_wf_b d = true.
Proof. exact valid_doc_wf. Qed.
Print Assumptions C15_valid_doc_wf.

Theorem C15_valid : forall (p : aprog) (G : gtable) (t : text) (toks : list token) (d : doc),
  prog_ok p = true -> well_typed (expected p) G ->
  lex t = Some toks -> map tk toks = flatten p ++ [Eof] ->
  new_doc_res t = ODone d ->
  exists data, semantic_tokens d = SOk data /\
    forall owner k x sc dcl, In (owner, ((k, x, sc), dcl)) (program_roles (expected p)) ->
    forall tok, nth_error toks k = Some tok ->
    exists e, binding d owner sc x = Some e /\
      let a := tok_view t (tok, (kind_of e, mod_of dcl)) in
      In a (decode data) /\ forall b, In b (decode data) -> at_pos b = at_pos a -> b = a.
Proof. exact semtok_valid. Qed.
Print Assumptions C15_valid.

(* ---- the classification part ---- *)
(* In a document without diagnostics the answer reports (a) every keyword / number / comment of the
   text with its lexical class and (b) every identifier occurrence of the syntax tree ([doc_occs]:
   the token index and the class prescribed by the occurrence's syntactic role - declared name with
   the declaration modifier, type position, variable position resolved in the procedure's own local
   table, callee) with that class.  With C15_coincide / C15_increasing / C15_lexical_class (nothing
   else is reported, in text order) this pins the whole answer.
   PROVED (C15_full_clean, end of this file) under the additional hypothesis that no token carries a lexical
   error - those are not part of errors().  (a) alone is C15_lexical_reported_everywhere_total.  The check also
   decides both parts for every generated well-typed program (judge command 50), in agreement with
   the independent python oracle, and found no counterexample on the repaired code. *)
Definition C15_full_statement : Prop :=
  forall t d data,
    new_doc t = Done d -> doc_errors d = Done [] -> semantic_tokens d = SOk data ->
    (forall j k c, nth_error (d_toks d) j = Some k -> map_class (tk k) = Some c ->
                   In (tok_view (d_text d) (k, c)) (decode data)) /\
    (forall j k c, In (j, Some c) (doc_occs d) -> nth_error (d_toks d) j = Some k ->
                   In (tok_view (d_text d) (k, c)) (decode data)).

(* ---- non-vacuity: `type t = int; // é€😀 c` LF `proc f(p: t) { var v: t; v := p; }` ---- *)
Definition c15_text : text :=
  [116; 121; 112; 101; 32; 116; 32; 61; 32; 105; 110; 116; 59; 32; 47; 47; 32; 233; 8364; 128512; 32; 99; 10;
   112; 114; 111; 99; 32; 102; 40; 112; 58; 32; 116; 41; 32; 123; 32; 118; 97; 114; 32; 118; 58; 32; 116; 59; 32;
   118; 32; 58; 61; 32; 112; 59; 32; 125]%N.

Definition c15_doc : option doc := match new_doc c15_text with Done d => Some d | _ => None end.

Example C15_example_wf : option_map doc_wf_b c15_doc = Some true.
Proof. vm_compute. reflexivity. Qed.

Example C15_example_stream :
  option_map (fun d => match semantic_tokens d with SOk data => Some (map (fun a => (at_line a, at_col a, at_len a, at_ty a, at_mod a)) (decode data)) | SFail _ => None end) c15_doc
  = Some (Some [ (0, 0, 4, 1, 0); (0, 5, 1, 3, 1); (0, 9, 3, 3, 0); (0, 14, 10, 0, 0);
                 (1, 0, 4, 1, 0); (1, 5, 1, 4, 1); (1, 7, 1, 5, 1); (1, 10, 1, 3, 0);
                 (1, 15, 3, 1, 0); (1, 19, 1, 6, 1); (1, 22, 1, 3, 0); (1, 25, 1, 6, 0); (1, 30, 1, 5, 0) ])%N.
Proof. vm_compute. reflexivity. Qed.

(* ---- the witnesses of the repaired defects (regression; also in corpus/C15) ---- *)
Definition stream_of (t : text) : option (bool * option (list (N * N * N * N * N))) :=
  match new_doc t with
  | Done d =>
      Some (doc_wf_b d,
            match semantic_tokens d with
            | SOk data => Some (map (fun a => (at_line a, at_col a, at_len a, at_ty a, at_mod a)) (decode data))
            | SFail _ => None
            end)
  | _ => None
  end.

(* `type t = int; proc p(t: t) { t := 1; }` LF `proc main() {}`: the second `t` of `t: t` (0:24) is a
   type, the `t` of the assignment (0:29) the parameter *)
Example C15_example_type_use :
  stream_of [116; 121; 112; 101; 32; 116; 32; 61; 32; 105; 110; 116; 59; 32; 112; 114; 111; 99; 32; 112; 40; 116;
             58; 32; 116; 41; 32; 123; 32; 116; 32; 58; 61; 32; 49; 59; 32; 125; 10; 112; 114; 111; 99; 32; 109; 97;
             105; 110; 40; 41; 32; 123; 125]%N
  = Some (true, Some [ (0, 0, 4, 1, 0); (0, 5, 1, 3, 1); (0, 9, 3, 3, 0); (0, 14, 4, 1, 0); (0, 19, 1, 4, 1);
                       (0, 21, 1, 5, 1); (0, 24, 1, 3, 0); (0, 29, 1, 5, 0); (0, 34, 1, 2, 0);
                       (1, 0, 4, 1, 0); (1, 5, 4, 4, 1) ])%N.
Proof. vm_compute. reflexivity. Qed.

(* `proc main() { var int: int; }`: the variable `int` (0:18) and the type `int` (0:23) *)
Example C15_example_int_hidden :
  stream_of [112; 114; 111; 99; 32; 109; 97; 105; 110; 40; 41; 32; 123; 32; 118; 97; 114; 32; 105; 110; 116; 58;
             32; 105; 110; 116; 59; 32; 125]%N
  = Some (true, Some [ (0, 0, 4, 1, 0); (0, 5, 4, 4, 1); (0, 14, 3, 1, 0); (0, 18, 3, 6, 1); (0, 23, 3, 3, 0) ])%N.
Proof. vm_compute. reflexivity. Qed.

(* `proc main() { } // tail`: the comment behind the last declaration (0:16) *)
Example C15_example_trailing :
  stream_of [112; 114; 111; 99; 32; 109; 97; 105; 110; 40; 41; 32; 123; 32; 125; 32; 47; 47; 32; 116; 97; 105; 108]%N
  = Some (true, Some [ (0, 0, 4, 1, 0); (0, 5, 4, 4, 1); (0, 16, 7, 0, 0) ])%N.
Proof. vm_compute. reflexivity. Qed.

(* ---- the classification part, PROVED for every document without diagnostics ----
   By the completeness of the front end (Proofs/CompleteFront.v) a document of AnalyzedSource::new whose
   errors() is empty and none of whose tokens carries a lexical error is the document of a layout of a
   well-typed abstract program; C15_valid applies to it, and in a well-typed tree the class the syntactic
   role of an occurrence prescribes is the class of the entity it is bound to (Proofs/CompleteFeatures.v). *)
From Spl Require Import Proofs.CompleteFront Proofs.CompleteFeatures.

Theorem C15_valid_clean : forall (t : text) (d : doc), Nav.clean_doc t d ->
  exists data, semantic_tokens d = SOk data /\
    forall owner k x sc dcl, In (owner, ((k, x, sc), dcl)) (program_roles (d_ast d)) ->
    forall tok, nth_error (d_toks d) k = Some tok ->
    exists e, HoverProofs.binding d owner sc x = Some e /\
      let a := tok_view t (tok, (kind_of e, mod_of dcl)) in
      In a (decode data) /\ forall b, In b (decode data) -> at_pos b = at_pos a -> b = a.
Proof. exact semtok_valid_clean. Qed.
Print Assumptions C15_valid_clean.

Theorem C15_occs_roles : forall d : doc,
  well_typed (d_ast d) (d_table d) ->
  forall j c, In (j, Some c) (doc_occs d) ->
  exists owner x sc dcl, In (owner, ((j, x, sc), dcl)) (program_roles (d_ast d)) /\
    forall e, HoverProofs.binding d owner sc x = Some e -> c = (kind_of e, mod_of dcl).
Proof. exact doc_occs_roles. Qed.
Print Assumptions C15_occs_roles.

Theorem C15_full_clean : forall t d data,
  new_doc t = Done d -> doc_errors d = Done [] ->
  forallb (fun tok => match terr tok with [] => true | _ => false end) (d_toks d) = true ->
  semantic_tokens d = SOk data ->
  (forall j k c, nth_error (d_toks d) j = Some k -> map_class (tk k) = Some c ->
                 In (tok_view (d_text d) (k, c)) (decode data)) /\
  (forall j k c, In (j, Some c) (doc_occs d) -> nth_error (d_toks d) j = Some k ->
                 In (tok_view (d_text d) (k, c)) (decode data)).
Proof. exact semtok_full_clean. Qed.
Print Assumptions C15_full_clean.

(* [C15_full_clean] is [C15_full_statement] with the lexical hypothesis added *)
Example C15_full_clean_is_full_statement :
  (forall t d, new_doc t = Done d -> doc_errors d = Done [] ->
               forallb (fun tok => match terr tok with [] => true | _ => false end) (d_toks d) = true) ->
  C15_full_statement.
Proof. intros H t d data Hn He Hs. exact (C15_full_clean t d data Hn He (H t d Hn He) Hs). Qed.

(* non-vacuity: the document of C15_example_type_use - `type t = int; proc p(t: t) { t := 1; }` LF `proc main() {}` -
   satisfies the three hypotheses and has 7 classified identifier occurrences; and the lexical hypothesis is not
   implied by the other two: `proc main() { var x: int; x := 99999999999; }` has an empty errors() although
   its literal token carries InvalidIntLit *)
Example C15_full_clean_ex :
  match new_doc [116; 121; 112; 101; 32; 116; 32; 61; 32; 105; 110; 116; 59; 32; 112; 114; 111; 99; 32; 112; 40; 116; 58; 32; 116; 41; 32; 123; 32; 116; 32; 58; 61; 32; 49; 59; 32; 125; 10; 112; 114; 111; 99; 32; 109; 97; 105; 110; 40; 41; 32; 123; 125]%N with
  | Done d => doc_errors d = Done [] /\
              forallb (fun tok => match terr tok with [] => true | _ => false end) (d_toks d) = true /\
              length (doc_occs d) = 7%nat
  | _ => False
  end.
Proof. vm_compute. repeat split; reflexivity. Qed.

Example C15_lexical_error_unreported_ex :
  match new_doc [112; 114; 111; 99; 32; 109; 97; 105; 110; 40; 41; 32; 123; 32; 118; 97; 114; 32; 120; 58; 32; 105; 110; 116; 59; 32; 120; 32; 58; 61; 32; 57; 57; 57; 57; 57; 57; 57; 57; 57; 57; 57; 59; 32; 125]%N with
  | Done d => doc_errors d = Done [] /\
              forallb (fun tok => match terr tok with [] => true | _ => false end) (d_toks d) = false
  | _ => False
  end.
Proof. vm_compute. split; reflexivity. Qed.
