(* C15 - placeholder while the proofs are being written; replaced by the real statements. *)
From Spl Require Import Model.SemTok.
Theorem C15_placeholder : True. Proof. exact I. Qed.
Print Assumptions C15_placeholder.
