(* C05 - a syntax error stays contained in the declaration it occurs in.  Statements only.

   What is proved, for ALL token lists that end with their only Eof (every lexer output, C06):
   error recovery resynchronises at every `proc` / `type` keyword (C05_sync: the Type/Procedure
   declarations of the tree are in one-to-one, order-preserving correspondence with the `proc`/`type`
   tokens), the declarations tile the token vector without gaps or overlaps (C05_spans,
   C05_per_declaration), and what is parsed for a declaration depends only on the tokens up to the
   next `proc`/`type`/Eof token (C05_locality) - so a damage cannot influence any declaration in
   front of it, and the declarations behind it start at their own keywords again.
   The shift-invariance half of containment is proved too (second part of this file, from
   Proofs/ParserShift*.v): from a declaration boundary on the tree is the parse of the remaining tokens
   as a document of their own (C05_suffix_as_document, C05_suffix_independent); in front of a proc/type
   token nothing depends on what follows it (C05_prefix_independent); together: a replacement of tokens
   between a declaration keyword and a later declaration boundary leaves every declaration in front
   unchanged and moves the identical subtrees behind it by the length difference, syntax errors included
   (C05_containment, C05_containment_between_keywords, C05_errors_contained).
   C05_full_statement as first written is too strong for the model and is refuted
   (C05_full_statement_refuted); C05_contained_in_one_declaration is the version that holds.
   The table part is proved as well (third part of this file, from Proofs/TableContain*.v), for ALL trees:
   the table of table::build is a function of the declaration list alone (C05_table_is_function; analyze
   does not touch it, C05_analysis_keeps_table); when two trees agree except for declaration k (offsets
   behind it moved by a constant - what C05_contained_in_one_declaration delivers), then
     - every entry of a declaration in front of k is in both tables, unchanged;
     - every name that declaration k declares in NEITHER tree has an entry in one table iff it has one in the
       other, of the same kind, with the same name identifier, documentation, range (moved by the constant
       behind k), the same parameters and local entries except for their data types [kept_skel];
     - the data types are the same too [kept_full] unless the name is tainted: the taint starts with the
       names declaration k declares in p or p' whose resolution as a type name differs after declaration k,
       and spreads to each later declaration one of whose type expressions mentions a tainted name
       (C05_table_entries_kept; C05_table_same_procedure: no taint at all when declaration k is a procedure
       that keeps its name; C05_table_contained / C05_table_contained_documents: the same from token vectors
       resp. texts on, hypotheses of C05_containment, both builds succeed).
   The side conditions are necessary (C05_table_example, and C05_table_name_clash: a damage that gives
   declaration k the name of a LATER declaration takes that declaration's entry - the first declaration wins).
   The positional part is proved too (last part of this file, from Proofs/ErrInside*.v), for ALL token lists: every
   syntax error collected from a declaration lies inside the token span of that declaration
   (C05_errors_inside_declaration, C05_tree_errors_inside), hence the errors of a damaged region lie inside that
   region (C05_errors_contained_located); the one exception to strict inclusion - the empty range of an empty
   parameter declaration / argument at the very end of a declaration - is exhibited (C05_soft_error_example). *)
From Spl Require Import Model.Lexer Model.Parser Model.Errors Proofs.ParserTotal Proofs.ParserSync Proofs.ParserFwd Proofs.ParserProofs
  Proofs.PipelineProofs Proofs.ParserShiftProofs Proofs.RangeProofsBuild
  Proofs.TableContain Proofs.TableContainSim Proofs.TableContainTop.
Local Open Scope nat_scope.

Theorem C05_lexer_output_ends_with_eof : forall s toks, lex s = Some toks -> EofLast toks.
Proof. exact lex_eoflast. Qed.
Print Assumptions C05_lexer_output_ends_with_eof.

Theorem C05_sync : forall toks prog,
  EofLast toks -> parse toks = Done prog ->
  decl_heads toks (pg_decls prog) = kw_in toks 0 (length toks).
Proof. exact T5_heads. Qed.
Print Assumptions C05_sync.

Theorem C05_spans : forall toks prog,
  EofLast toks -> parse toks = Done prog ->
  Spans toks 0 (pg_decls prog) (i_e (pg_info prog)) /\
  i_s (pg_info prog) = 0 /\
  sig_at toks (i_e (pg_info prog)) = length toks - 1.
Proof. exact T5_sync. Qed.
Print Assumptions C05_spans.

Theorem C05_per_declaration : forall toks prog i g off,
  EofLast toks -> parse toks = Done prog -> nth_error (pg_decls prog) i = Some (g, off) ->
  off + i_e (gdecl_info g) <= i_e (pg_info prog) /\ 0 < i_e (gdecl_info g) /\ i_s (gdecl_info g) = 0 /\
  decl_span toks g off (off + i_e (gdecl_info g)) /\
  match nth_error (pg_decls prog) (S i) with
  | Some (_, off') => off' = off + i_e (gdecl_info g)
  | None => off + i_e (gdecl_info g) = i_e (pg_info prog)
  end /\
  (i = 0 -> off = 0).
Proof. exact T5_per_declaration. Qed.
Print Assumptions C05_per_declaration.

Theorem C05_locality : forall toks1 toks2 fuel j s,
  (forall i, i <= j -> nth_error toks1 i = nth_error toks2 i) ->
  (exists t, nth_error toks1 j = Some t /\ sync_full (tk t) = true) ->
  sig_at toks1 (pos s) < j ->
  p_gdecl toks1 fuel s = p_gdecl toks2 fuel s /\
  (forall s' g, p_gdecl toks1 fuel s = POk s' g -> pos s' <= j).
Proof. exact T6_locality. Qed.
Print Assumptions C05_locality.

(* the complete property, over token lists: replacing the tokens [a, b) of one declaration's span by
   other non-synchronising tokens leaves every other declaration's subtree unchanged (offsets behind
   the damage shifted by the length difference) and puts every syntax error inside the damaged span *)
Definition same_decls_before (p p' : program) (k : nat) : Prop :=
  firstn k (pg_decls p) = firstn k (pg_decls p').
Definition same_decls_after (p p' : program) (k : nat) (old_len new_len : nat) : Prop :=
  map (fun go => (fst go, snd go + new_len)) (skipn (S k) (pg_decls p)) =
  map (fun go => (fst go, snd go + old_len)) (skipn (S k) (pg_decls p')).
Definition C05_full_statement : Prop :=
  forall pre mid mid' post p p' k,
    EofLast (pre ++ mid ++ post) -> EofLast (pre ++ mid' ++ post) ->
    Forall (fun t => sync_full (tk t) = false) mid -> Forall (fun t => sync_full (tk t) = false) mid' ->
    parse (pre ++ mid ++ post) = Done p -> parse (pre ++ mid' ++ post) = Done p' ->
    (* the damage lies inside declaration k, behind its keyword *)
    (exists g off, nth_error (pg_decls p) k = Some (g, off) /\
                   sig_at (pre ++ mid ++ post) off < length pre /\ length pre + length mid <= off + i_e (gdecl_info g)) ->
    (* ... and the declaration has no syntax error before the damage (valid program) *)
    same_decls_before p p' k /\ same_decls_after p p' k (length mid) (length mid').

(* non-vacuity: the examples of Proofs/ParserProofs.v (ex1: garbage then two type declarations) *)
Example C05_example :
  kw_in ex1 0 (length ex1) = [(3, KType); (7, KType)] /\ EofLast ex1.
Proof. split; [exact ex1_heads | exact ex1_eoflast]. Qed.

(* ------------------------------------------------------------------------------------------ *)
(* the shift-invariance half (Proofs/ParserShiftProofs.v).
   [Boundary p k b]: token index b is the start offset of declaration k of p, or - for k = number of
   declarations - the end of the declarations.  [shift_offs d l]: the same declarations (identical
   subtrees: all ranges inside a declaration are relative to it), offsets moved by d. *)

(* from a declaration boundary on, the tree is the tree of the remaining tokens parsed on their own *)
Theorem C05_suffix_as_document : forall pre post p k,
  EofLast (pre ++ post) -> parse (pre ++ post) = Done p -> Boundary p k (length pre) ->
  exists p0, parse post = Done p0 /\ EofLast post /\
    skipn k (pg_decls p) = shift_offs (length pre) (pg_decls p0) /\
    i_e (pg_info p) = i_e (pg_info p0) + length pre.
Proof. exact S2_suffix_as_document. Qed.
Print Assumptions C05_suffix_as_document.

Theorem C05_suffix_independent : forall pre pre' post p p' k k',
  EofLast (pre ++ post) -> EofLast (pre' ++ post) ->
  parse (pre ++ post) = Done p -> parse (pre' ++ post) = Done p' ->
  Boundary p k (length pre) -> Boundary p' k' (length pre') ->
  map (fun go => (fst go, snd go - length pre)) (skipn k (pg_decls p)) =
  map (fun go => (fst go, snd go - length pre')) (skipn k' (pg_decls p')) /\
  i_e (pg_info p) - length pre = i_e (pg_info p') - length pre' /\
  map (fun go => (fst go, snd go + length pre')) (skipn k (pg_decls p)) =
  map (fun go => (fst go, snd go + length pre)) (skipn k' (pg_decls p')) /\
  i_e (pg_info p) + length pre' = i_e (pg_info p') + length pre.
Proof. exact S2_suffix_independent. Qed.
Print Assumptions C05_suffix_independent.

(* the declarations starting at or before a proc/type/Eof token (index j) do not depend on what follows it *)
Theorem C05_prefix_independent : forall toks toks' p p' j k o,
  parse toks = Done p -> parse toks' = Done p' ->
  (forall i, i <= j -> nth_error toks i = nth_error toks' i) ->
  (exists t, nth_error toks j = Some t /\ sync_full (tk t) = true) ->
  Boundary p k o -> o <= j ->
  firstn k (pg_decls p) = firstn k (pg_decls p') /\ Boundary p' k o.
Proof. exact S3_prefix_independent. Qed.
Print Assumptions C05_prefix_independent.

(* containment: the tokens mid are replaced by mid'; a proc/type token of the untouched prefix (index j)
   belongs to declaration k or a later one (o <= j); the replaced tokens end at a declaration boundary
   of either parse *)
Theorem C05_containment : forall pre mid mid' post p p' j k o k2 k2',
  EofLast (pre ++ mid ++ post) -> EofLast (pre ++ mid' ++ post) ->
  parse (pre ++ mid ++ post) = Done p -> parse (pre ++ mid' ++ post) = Done p' ->
  (exists t, nth_error pre j = Some t /\ sync_full (tk t) = true) -> Boundary p k o -> o <= j ->
  Boundary p k2 (length pre + length mid) -> Boundary p' k2' (length pre + length mid') ->
  firstn k (pg_decls p) = firstn k (pg_decls p') /\ Boundary p' k o /\
  shift_offs (length mid') (skipn k2 (pg_decls p)) = shift_offs (length mid) (skipn k2' (pg_decls p')) /\
  i_e (pg_info p) + length mid' = i_e (pg_info p') + length mid /\
  k < k2 /\ k < k2'.
Proof. exact S4_containment. Qed.
Print Assumptions C05_containment.

(* the same with hypotheses on the tokens only: replace anything between a proc/type token and a later
   proc/type token that no comment directly precedes *)
Theorem C05_containment_between_keywords : forall pre mid mid' post post' p p' j tj tq,
  EofLast (pre ++ mid ++ post) -> EofLast (pre ++ mid' ++ post) ->
  parse (pre ++ mid ++ post) = Done p -> parse (pre ++ mid' ++ post) = Done p' ->
  nth_error pre j = Some tj -> is_declkw (tk tj) = true ->
  post = tq :: post' -> is_declkw (tk tq) = true ->
  (exists t', nth_error (pre ++ mid) (length pre + length mid - 1) = Some t' /\ is_comment (tk t') = false) ->
  (exists t', nth_error (pre ++ mid') (length pre + length mid' - 1) = Some t' /\ is_comment (tk t') = false) ->
  exists k g o k2 k2',
    nth_error (pg_decls p) k = Some (g, o) /\ is_kw_decl g = true /\ sig_at (pre ++ mid ++ post) o = j /\
    Boundary p k2 (length pre + length mid) /\ Boundary p' k2' (length pre + length mid') /\
    firstn k (pg_decls p) = firstn k (pg_decls p') /\ Boundary p' k o /\
    shift_offs (length mid') (skipn k2 (pg_decls p)) = shift_offs (length mid) (skipn k2' (pg_decls p')) /\
    i_e (pg_info p) + length mid' = i_e (pg_info p') + length mid /\
    k < k2 /\ k < k2'.
Proof. exact S4_containment_between_keywords. Qed.
Print Assumptions C05_containment_between_keywords.

(* the published syntax errors: unchanged in front, the same errors at shifted positions behind *)
Theorem C05_errors_contained : forall pre mid mid' post p p' j k o k2 k2',
  EofLast (pre ++ mid ++ post) -> EofLast (pre ++ mid' ++ post) ->
  parse (pre ++ mid ++ post) = Done p -> parse (pre ++ mid' ++ post) = Done p' ->
  (exists t, nth_error pre j = Some t /\ sync_full (tk t) = true) -> Boundary p k o -> o <= j ->
  Boundary p k2 (length pre + length mid) -> Boundary p' k2' (length pre + length mid') ->
  exists before damaged damaged' after after',
    tree_errors p = before ++ damaged ++ after /\
    tree_errors p' = before ++ damaged' ++ after' /\
    shift_es (length mid') after = shift_es (length mid) after' /\
    before = decl_errors (firstn k (pg_decls p)) /\
    damaged = decl_errors (firstn (k2 - k) (skipn k (pg_decls p))) /\
    damaged' = decl_errors (firstn (k2' - k) (skipn k (pg_decls p'))) /\
    after = decl_errors (skipn k2 (pg_decls p)) /\ after' = decl_errors (skipn k2' (pg_decls p')).
Proof. exact S4_errors_contained. Qed.
Print Assumptions C05_errors_contained.

(* C05_full_statement does not hold of the model: a damage may end the damaged declaration early, and
   the rest of its old span then becomes an additional Error declaration
   (`proc x ( ) { x := x ; } type ...` with the first `x` of the body replaced by `}`) *)
Theorem C05_full_statement_refuted : ~ C05_full_statement.
Proof. exact full_statement_v0_refuted. Qed.
Print Assumptions C05_full_statement_refuted.

(* what holds instead: when the replaced tokens reach to the end of declaration k in both parses (and a
   proc/type token of declaration k or a later one lies in front of them), the conclusion of
   C05_full_statement follows *)
Theorem C05_contained_in_one_declaration : forall pre mid mid' post p p' j k o,
  EofLast (pre ++ mid ++ post) -> EofLast (pre ++ mid' ++ post) ->
  parse (pre ++ mid ++ post) = Done p -> parse (pre ++ mid' ++ post) = Done p' ->
  (exists t, nth_error pre j = Some t /\ sync_full (tk t) = true) -> Boundary p k o -> o <= j ->
  Boundary p (S k) (length pre + length mid) -> Boundary p' (S k) (length pre + length mid') ->
  same_decls_before p p' k /\ same_decls_after p p' k (length mid) (length mid').
Proof.
  intros pre mid mid' post p p' j k o HE HE' Hp Hp' Hj Hb Ho Hb2 Hb2'.
  destruct (S4_containment pre mid mid' post p p' j k o (S k) (S k) HE HE' Hp Hp' Hj Hb Ho Hb2 Hb2') as (A & _ & B & _).
  split; [exact A | exact B].
Qed.
Print Assumptions C05_contained_in_one_declaration.

(* non-vacuity: `type x = x ; proc x ( ) { x := ; } type x = x Eof` with `; }` replaced by `}` resp. by
   `} + +` (Proofs/ParserShiftProofs.v) - all hypotheses of C05_containment hold, the second damage
   adds an Error declaration (k2 = 2, k2' = 3) *)
Example C05_containment_example :
  let p := prog_of (xpre ++ xmid ++ xpost) in let p' := prog_of (xpre ++ xmid2 ++ xpost) in
  firstn 1 (pg_decls p) = firstn 1 (pg_decls p') /\ Boundary p' 1 5 /\
  shift_offs 3 (skipn 2 (pg_decls p)) = shift_offs 2 (skipn 3 (pg_decls p')) /\
  i_e (pg_info p) + 3 = i_e (pg_info p') + 2 /\ 1 < 2 /\ 1 < 3.
Proof. exact S4_example_extra_declaration. Qed.

Example C05_one_declaration_example :
  same_decls_before (prog_of (xpre ++ xmid ++ xpost)) (prog_of (xpre ++ xmid1 ++ xpost)) 1 /\
  same_decls_after (prog_of (xpre ++ xmid ++ xpost)) (prog_of (xpre ++ xmid1 ++ xpost)) 1 2 1.
Proof. split; vm_compute; reflexivity. Qed.

(* ------------------------------------------------------------------------------------------ *)
(* the table part (Proofs/TableContain.v, TableContainSim.v, TableContainTop.v).
   [table_of ds T]: the table after entering the declarations ds into T, one [decl_entry] per declaration
   under its [decl_key], the first declaration of a key wins.  [tyres T n]: how n resolves as a type name in T
   (undefined / a procedure / a type with its data type) - all that build reads from the global table.
   [kept_full old new o o']: o and o' are both None, or the same entry with the range moved
   (range + new = range' + old); [kept_skel]: the same after forgetting all data types. *)

Theorem C05_table_is_function : forall p q T,
  build_res p = ROk (q, T) -> T = table_of (pg_decls p) initialized.
Proof. exact build_res_table. Qed.
Print Assumptions C05_table_is_function.

(* the table of a document is the table of build: analyze returns a tree only *)
Theorem C05_analysis_keeps_table : forall t d,
  new_doc_res t = ODone d ->
  exists p q, parse (d_toks d) = Done p /\ build_res p = ROk (q, d_table d) /\ analyze_res q (d_table d) = ROk (d_ast d).
Proof. intros t d H. destruct (new_doc_shape t d H) as (_ & _ & _ & _ & p & q & H1 & H2 & H3). exists p, q. auto. Qed.
Print Assumptions C05_analysis_keeps_table.

(* the keys of a table: the predefined ones and [decl_keys] (names of procedures and of types other than `main`) *)
Theorem C05_table_keys : forall ds T n,
  lookup (table_of ds T) n <> None <-> lookup T n <> None \/ In n (decl_keys ds).
Proof. exact table_of_keys. Qed.
Print Assumptions C05_table_keys.

(* tree level: p and p' agree except for declaration k *)
Theorem C05_table_entries_kept : forall p p' k old_len new_len q T q' T',
  same_decls_before p p' k -> same_decls_after p p' k old_len new_len ->
  build_res p = ROk (q, T) -> build_res p' = ROk (q', T') ->
  let A := firstn k (pg_decls p) in                       (* the declarations in front *)
  let M := firstn 1 (skipn k (pg_decls p)) in             (* declaration k of p *)
  let M' := firstn 1 (skipn k (pg_decls p')) in           (* declaration k of p' *)
  let B := skipn (S k) (pg_decls p) in                    (* the declarations behind *)
  let front := table_of A initialized in
  let D := decl_keys M ++ decl_keys M' in
  let W := tainted (seed (table_of (A ++ M) initialized) (table_of (A ++ M') initialized) D) B in
  (forall n e, lookup front n = Some e -> lookup T n = Some e /\ lookup T' n = Some e) /\
  (forall n, ~ In n W -> tyres T n = tyres T' n) /\
  (forall n, lookup front n = None -> ~ In n D -> kept_skel old_len new_len (lookup T n) (lookup T' n)) /\
  (forall n, lookup front n = None -> ~ In n D -> ~ In n W -> kept_full old_len new_len (lookup T n) (lookup T' n)).
Proof.
  intros p p' k old_len new_len q T q' T' Hb Ha Hq Hq'.
  pose proof (table_kept_trees p p' k (S k) (S k) old_len new_len q T q' T' (le_S k k (le_n k)) (le_S k k (le_n k))
                Hb Ha Hq Hq') as H.
  unfold table_kept in H. replace (S k - k) with 1 in H by (clear; induction k; [reflexivity | assumption]). exact H.
Qed.
Print Assumptions C05_table_entries_kept.

(* the general form: declarations k .. k2-1 of p against k .. k2'-1 of p' (a damage may add or remove Error
   declarations, C05_containment_example) *)
Theorem C05_table_entries_kept_general : forall p p' k k2 k2' old_len new_len q T q' T',
  k <= k2 -> k <= k2' ->
  firstn k (pg_decls p) = firstn k (pg_decls p') ->
  shift_offs new_len (skipn k2 (pg_decls p)) = shift_offs old_len (skipn k2' (pg_decls p')) ->
  build_res p = ROk (q, T) -> build_res p' = ROk (q', T') ->
  table_kept old_len new_len (pg_decls p) (pg_decls p') k k2 k2' T T'.
Proof. exact table_kept_trees. Qed.
Print Assumptions C05_table_entries_kept_general.

(* what the two relations say, field by field *)
Theorem C05_table_kept_fields : forall old_len new_len o o',
  (kept_full old_len new_len o o' -> kept_skel old_len new_len o o') /\
  (kept_skel old_len new_len o o' ->
   match o, o' with
   | None, None => True
   | Some (GTypeE t), Some (GTypeE t') =>
       ten_name t = ten_name t' /\ ten_doc t = ten_doc t' /\
       shift_range (ten_range t) new_len = shift_range (ten_range t') old_len
   | Some (GProcE e), Some (GProcE e') =>
       pe_name e = pe_name e' /\ pe_doc e = pe_doc e' /\
       shift_range (pe_range e) new_len = shift_range (pe_range e') old_len /\
       map erase_v (pe_params e) = map erase_v (pe_params e') /\
       erase_lt (pe_local e) = erase_lt (pe_local e')
   | _, _ => False
   end) /\
  (kept_full old_len new_len o o' ->
   match o, o' with
   | None, None => True
   | Some (GTypeE t), Some (GTypeE t') =>
       ten_name t = ten_name t' /\ ten_doc t = ten_doc t' /\ ten_ty t = ten_ty t' /\
       shift_range (ten_range t) new_len = shift_range (ten_range t') old_len
   | Some (GProcE e), Some (GProcE e') =>
       pe_name e = pe_name e' /\ pe_doc e = pe_doc e' /\
       shift_range (pe_range e) new_len = shift_range (pe_range e') old_len /\
       pe_params e = pe_params e' /\ pe_local e = pe_local e'
   | _, _ => False
   end).
Proof.
  intros old_len new_len o o'. split; [apply kept_full_skel|]. split; [apply kept_skel_fields | apply kept_full_fields].
Qed.
Print Assumptions C05_table_kept_fields.

(* the taint starts inside D and outside the front: a name declared in front of k is never tainted by k *)
Theorem C05_table_seed : forall T0 M M' n,
  In n (seed (table_of M T0) (table_of M' T0) (decl_keys M ++ decl_keys M')) ->
  In n (decl_keys M ++ decl_keys M') /\ lookup T0 n = None.
Proof. exact seed_sub. Qed.
Print Assumptions C05_table_seed.

(* declaration k is a procedure and keeps its name (a damage of its parameters, variables or body): nothing is
   tainted - every other name keeps its complete entry *)
Theorem C05_table_same_procedure : forall p p' k old_len new_len q T q' T' pd o pd' o',
  same_decls_before p p' k -> same_decls_after p p' k old_len new_len ->
  build_res p = ROk (q, T) -> build_res p' = ROk (q', T') ->
  nth_error (pg_decls p) k = Some (GProc pd, o) -> nth_error (pg_decls p') k = Some (GProc pd', o') ->
  decl_key (GProc pd) = decl_key (GProc pd') ->
  let front := table_of (firstn k (pg_decls p)) initialized in
  (forall n e, lookup front n = Some e -> lookup T n = Some e /\ lookup T' n = Some e) /\
  (forall n, tyres T n = tyres T' n) /\
  (forall n, lookup front n = None -> decl_key (GProc pd) <> Some n ->
             kept_full old_len new_len (lookup T n) (lookup T' n)).
Proof.
  intros p p' k old_len new_len q T q' T' pd o pd' o' Hb Ha Hq Hq' Hn Hn' Hk.
  destruct (table_kept_same_proc p p' k old_len new_len q T q' T' pd o pd' o' Hb Ha Hq Hq' Hn Hn' Hk) as (H0 & H1 & _ & H3).
  split; [exact H0|]. split; [intros n; apply H1; intros []|].
  intros n Hf Hd. apply (H3 n Hf); [|intros []].
  unfold decl_keys. cbn [flat_map fst app]. rewrite <- Hk. destruct (decl_key (GProc pd)) as [x|]; cbn [app In]; [|tauto].
  intros [E|[E|[]]]; apply Hd; rewrite E; reflexivity.
Qed.
Print Assumptions C05_table_same_procedure.

(* from token vectors on: the hypotheses of C05_containment; both builds succeed, the tables are related *)
Theorem C05_table_contained : forall pre mid mid' post p p' j k o k2 k2',
  EofLast (pre ++ mid ++ post) -> EofLast (pre ++ mid' ++ post) ->
  parse (pre ++ mid ++ post) = Done p -> parse (pre ++ mid' ++ post) = Done p' ->
  (exists t, nth_error pre j = Some t /\ sync_full (tk t) = true) -> Boundary p k o -> o <= j ->
  Boundary p k2 (length pre + length mid) -> Boundary p' k2' (length pre + length mid') ->
  exists q T q' T',
    build_res p = ROk (q, T) /\ build_res p' = ROk (q', T') /\
    table_kept (length mid) (length mid') (pg_decls p) (pg_decls p') k k2 k2' T T'.
Proof. exact table_contained. Qed.
Print Assumptions C05_table_contained.

(* and for the documents of two texts *)
Theorem C05_table_contained_documents : forall t t' d d' pre mid mid' post j k o k2 k2',
  new_doc_res t = ODone d -> new_doc_res t' = ODone d' ->
  d_toks d = pre ++ mid ++ post -> d_toks d' = pre ++ mid' ++ post ->
  exists p p',
    parse (d_toks d) = Done p /\ parse (d_toks d') = Done p' /\
    ((exists tj, nth_error pre j = Some tj /\ sync_full (tk tj) = true) -> Boundary p k o -> o <= j ->
     Boundary p k2 (length pre + length mid) -> Boundary p' k2' (length pre + length mid') ->
     table_kept (length mid) (length mid') (pg_decls p) (pg_decls p') k k2 k2' (d_table d) (d_table d')).
Proof. exact table_contained_docs. Qed.
Print Assumptions C05_table_contained_documents.

(* non-vacuity and necessity of the side conditions:
     type a = int ; type t = array [ 3 ] of int ; type b = t ; proc p ( ref v : t , w : a ) { } proc main ( ) { } Eof
   with the `int` of declaration 1 deleted (mid = `int ;`, mid' = `;`).  a is declared in front; t is declared
   by the damaged declaration and its data type changes, so b and p - which mention t - are tainted: they keep
   everything but the data types; main is not tainted and keeps its complete entry, moved by one token. *)
Definition n_a : text := [97%N].
Definition n_b : text := [98%N].
Definition n_p : text := [112%N].
Definition n_t : text := [116%N].
Definition ypre := mk [KType; Ident n_a; EqT; Ident s_int; Semic;
                       KType; Ident n_t; EqT; KArray; LBracket; IntT (IntOk 3); RBracket; KOf].
Definition ymid := mk [Ident s_int; Semic].
Definition ymid' := mk [Semic].
Definition ypost0 := mk [KType; Ident n_b; EqT; Ident n_t; Semic;
                         KProc; Ident n_p; LParen; KRef; Ident [118%N]; Colon; Ident n_t; Comma; Ident [119%N]; Colon; Ident n_a;
                         RParen; LCurly; RCurly;
                         KProc; Ident s_main; LParen; RParen; LCurly; RCurly].
Definition ypost := ypost0 ++ mk [Eof].
Definition yp : program := Eval vm_compute in prog_of (ypre ++ ymid ++ ypost).
Definition yp' : program := Eval vm_compute in prog_of (ypre ++ ymid' ++ ypost).
Definition yq : program := Eval vm_compute in match build_res yp with ROk (q, _) => q | RFail _ => yp end.
Definition yq' : program := Eval vm_compute in match build_res yp' with ROk (q, _) => q | RFail _ => yp' end.
Definition ytab : gtable := Eval vm_compute in match build_res yp with ROk (_, T) => T | RFail _ => [] end.
Definition ytab' : gtable := Eval vm_compute in match build_res yp' with ROk (_, T) => T | RFail _ => [] end.

Ltac not_in := let H := fresh "H" in intros H; vm_compute in H; repeat (destruct H as [H|H]; [discriminate H|]); exact H.

Example C05_table_example :
  (* the hypotheses of C05_table_entries_kept *)
  same_decls_before yp yp' 1 /\ same_decls_after yp yp' 1 2 1 /\
  build_res yp = ROk (yq, ytab) /\ build_res yp' = ROk (yq', ytab') /\
  (* the taint *)
  (let A := firstn 1 (pg_decls yp) in let M := firstn 1 (skipn 1 (pg_decls yp)) in
   let M' := firstn 1 (skipn 1 (pg_decls yp')) in let D := decl_keys M ++ decl_keys M' in
   tainted (seed (table_of (A ++ M) initialized) (table_of (A ++ M') initialized) D) (skipn 2 (pg_decls yp))
   = [n_p; n_b; n_t; n_t]) /\
  (* through the theorem *)
  lookup ytab n_a = lookup ytab' n_a /\ lookup ytab n_a <> None /\
  kept_full 2 1 (lookup ytab s_main) (lookup ytab' s_main) /\ lookup ytab s_main <> None /\
  kept_skel 2 1 (lookup ytab n_b) (lookup ytab' n_b) /\ lookup ytab n_b <> None /\
  kept_skel 2 1 (lookup ytab n_p) (lookup ytab' n_p) /\ lookup ytab n_p <> None /\
  (* by evaluation: the tainted names do not keep their data types *)
  ~ kept_full 2 1 (lookup ytab n_b) (lookup ytab' n_b) /\
  ~ kept_full 2 1 (lookup ytab n_p) (lookup ytab' n_p) /\
  tyres ytab n_t <> tyres ytab' n_t.
Proof.
  assert (Hb : same_decls_before yp yp' 1) by (vm_compute; reflexivity).
  assert (Ha : same_decls_after yp yp' 1 2 1) by (vm_compute; reflexivity).
  assert (Hq : build_res yp = ROk (yq, ytab)) by (vm_compute; reflexivity).
  assert (Hq' : build_res yp' = ROk (yq', ytab')) by (vm_compute; reflexivity).
  pose proof (C05_table_entries_kept yp yp' 1 2 1 yq ytab yq' ytab' Hb Ha Hq Hq') as H. cbv zeta in H.
  destruct H as (H0 & H1 & H2 & H3).
  split; [exact Hb|]. split; [exact Ha|]. split; [exact Hq|]. split; [exact Hq'|].
  split; [vm_compute; reflexivity|].
  split. { edestruct (H0 n_a) as [E1 E2]; [vm_compute; reflexivity|]. rewrite E1, E2. reflexivity. }
  split; [vm_compute; discriminate|].
  split. { apply H3; [vm_compute; reflexivity | not_in | not_in]. }
  split; [vm_compute; discriminate|].
  split. { apply H2; [vm_compute; reflexivity | not_in]. }
  split; [vm_compute; discriminate|].
  split. { apply H2; [vm_compute; reflexivity | not_in]. }
  split; [vm_compute; discriminate|].
  split; [vm_compute; discriminate|]. split; [vm_compute; discriminate|]. vm_compute; discriminate.
Qed.
Print Assumptions C05_table_example.

(* the same example from the token vectors on: the hypotheses of C05_table_contained hold *)
Lemma EofLast_y m : Forall (fun t => tk t <> Eof) m -> EofLast (ypre ++ m ++ ypost).
Proof.
  intros Hm. exists (ypre ++ m ++ ypost0), {| tk := Eof; ts := 0; te := 0; terr := [] |}.
  split; [unfold ypost; now rewrite <- !app_assoc|]. split; [reflexivity|].
  apply Forall_app. split; [repeat constructor; discriminate|].
  apply Forall_app. split; [exact Hm | repeat constructor; discriminate].
Qed.

Example C05_table_contained_example :
  exists q T q' T',
    build_res yp = ROk (q, T) /\ build_res yp' = ROk (q', T') /\
    table_kept 2 1 (pg_decls yp) (pg_decls yp') 1 2 2 T T'.
Proof.
  apply (C05_table_contained ypre ymid ymid' ypost yp yp' 5 1 5 2 2).
  - apply EofLast_y. repeat constructor; discriminate.
  - apply EofLast_y. repeat constructor; discriminate.
  - vm_compute. reflexivity.
  - vm_compute. reflexivity.
  - eexists. split; reflexivity.
  - split; [vm_compute; repeat constructor | vm_compute; reflexivity].
  - repeat constructor.
  - split; [vm_compute; repeat constructor | vm_compute; reflexivity].
  - split; [vm_compute; repeat constructor | vm_compute; reflexivity].
Qed.
Print Assumptions C05_table_contained_example.

(* the condition "n is not declared by the damaged declaration" is necessary behind it:
     type t = int ; type b = t ; proc main ( ) { } Eof     with `b` inserted in front of the first `t`
   (`type b t = int ;`: a type declaration b without `=`, and an Error declaration for `t = int ;` - containment
   holds with k = 0, k2 = 1, k2' = 2).  The damaged declaration is now the first declaration of b and takes the
   entry (the first declaration wins, the undamaged `type b = t` is a redeclaration) *)
Definition zpre := mk [KType].
Definition zmid := mk [Ident n_t; EqT; Ident s_int; Semic].
Definition zmid' := mk [Ident n_b; Ident n_t; EqT; Ident s_int; Semic].
Definition zpost := mk [KType; Ident n_b; EqT; Ident n_t; Semic; KProc; Ident s_main; LParen; RParen; LCurly; RCurly; Eof].
Definition zp : program := Eval vm_compute in prog_of (zpre ++ zmid ++ zpost).
Definition zp' : program := Eval vm_compute in prog_of (zpre ++ zmid' ++ zpost).
Definition ztab : gtable := Eval vm_compute in match build_res zp with ROk (_, T) => T | RFail _ => [] end.
Definition ztab' : gtable := Eval vm_compute in match build_res zp' with ROk (_, T) => T | RFail _ => [] end.

Example C05_table_name_clash :
  parse (zpre ++ zmid ++ zpost) = Done zp /\ parse (zpre ++ zmid' ++ zpost) = Done zp' /\
  Boundary zp 0 0 /\ Boundary zp 1 (length zpre + length zmid) /\ Boundary zp' 2 (length zpre + length zmid') /\
  firstn 0 (pg_decls zp) = firstn 0 (pg_decls zp') /\
  shift_offs 5 (skipn 1 (pg_decls zp)) = shift_offs 4 (skipn 2 (pg_decls zp')) /\
  (exists q q', build_res zp = ROk (q, ztab) /\ build_res zp' = ROk (q', ztab')) /\
  In n_b (decl_keys (firstn (1 - 0) (skipn 0 (pg_decls zp))) ++ decl_keys (firstn (2 - 0) (skipn 0 (pg_decls zp')))) /\
  option_map (fun e => match e with GTypeE t => ten_range t | GProcE e => pe_range e end) (lookup ztab n_b) = Some (5, 10) /\
  option_map (fun e => match e with GTypeE t => ten_range t | GProcE e => pe_range e end) (lookup ztab' n_b) = Some (0, 3) /\
  ~ kept_skel 4 5 (lookup ztab n_b) (lookup ztab' n_b) /\
  kept_full 4 5 (lookup ztab s_main) (lookup ztab' s_main).
Proof.
  split; [vm_compute; reflexivity|]. split; [vm_compute; reflexivity|].
  split; [split; [vm_compute; repeat constructor | vm_compute; reflexivity]|].
  split; [split; [vm_compute; repeat constructor | vm_compute; reflexivity]|].
  split; [split; [vm_compute; repeat constructor | vm_compute; reflexivity]|].
  split; [reflexivity|]. split; [vm_compute; reflexivity|].
  split; [eexists; eexists; split; vm_compute; reflexivity|].
  split; [vm_compute; tauto|]. split; [vm_compute; reflexivity|]. split; [vm_compute; reflexivity|].
  split; [vm_compute; discriminate | vm_compute; reflexivity].
Qed.
Print Assumptions C05_table_name_clash.

(* ------------------------------------------------------------------------------------------ *)
(* WHERE the syntax errors lie (Proofs/ErrInsideNodes.v, ErrInsideSyn.v, ErrInsideTop.v): for ALL token lists
   (not even EofLast is needed) every error errors() collects from a global declaration lies inside the token span
   of that declaration.  Declaration k starts at offset o; [Boundary p (S k) nxt]: nxt is the offset of declaration
   k+1 or, behind the last declaration, the end of the declarations (the index of the first trailing comment / of
   the Eof token).  [C05_inside o nxt e]: o <= e_s e <= e_e e <= nxt, and e_s e < nxt - with ONE exception: the
   error of an EMPTY parameter declaration or argument (`ignore_until0` that skipped nothing: messages
   "expected `parameter declaration`" / "expected `expression`") carries the empty range AT the position the parser
   stands on, which is nxt when the declaration ends there (C05_soft_error_example: `proc x ( , proc x ( ) { }`).
   An empty token range i..i is published at the END of token i (Model/Errors.v byte_range), so exactly these
   diagnostics are displayed at the end of the first token of the NEXT declaration (resp. of the first trailing
   comment / Eof; C05_soft_error_text_example), every other diagnostic within the bytes of its own declaration. *)
From Spl Require Proofs.ErrInsideTop.

Definition C05_inside (lo hi : nat) (e : err) : Prop :=
  lo <= e_s e /\ e_s e <= e_e e /\ e_e e <= hi /\
  (e_s e < hi \/
   e_s e = hi /\ e_e e = hi /\
   (e_m e = EParse (ExpectedToken s_paramdec) \/ e_m e = EParse (ExpectedToken s_expression))).

Theorem C05_errors_inside_declaration : forall toks p k g o nxt e,
  parse toks = Done p -> nth_error (pg_decls p) k = Some (g, o) -> Boundary p (S k) nxt ->
  In e (shift_es o (gdecl_errors g)) -> C05_inside o nxt e.
Proof. exact ErrInsideTop.errors_inside_declaration. Qed.
Print Assumptions C05_errors_inside_declaration.

(* a non-empty range lies strictly inside *)
Theorem C05_nonempty_range_inside : forall toks p k g o nxt e,
  parse toks = Done p -> nth_error (pg_decls p) k = Some (g, o) -> Boundary p (S k) nxt ->
  In e (shift_es o (gdecl_errors g)) -> e_s e < e_e e -> o <= e_s e /\ e_s e < nxt /\ e_e e <= nxt.
Proof. exact ErrInsideTop.nonempty_range_strictly_inside. Qed.
Print Assumptions C05_nonempty_range_inside.

(* the published list: the program node of a parse result carries no error (its errors come from `build`: "main is
   missing" at 0..0, "main must not have parameters" at the name of main); every error is collected from a declaration
   and lies in its span, and - unless it is one of the soft errors sitting on nxt - in no other declaration's span *)
Theorem C05_tree_errors_inside : forall toks p e,
  parse toks = Done p -> In e (tree_errors p) ->
  i_errs (pg_info p) = [] /\
  exists k g o nxt,
    nth_error (pg_decls p) k = Some (g, o) /\ Boundary p (S k) nxt /\
    In e (shift_es o (gdecl_errors g)) /\ C05_inside o nxt e /\
    (e_s e < nxt -> forall k' g' o' nxt',
       nth_error (pg_decls p) k' = Some (g', o') -> Boundary p (S k') nxt' -> o' <= e_s e < nxt' -> k' = k).
Proof. exact ErrInsideTop.tree_errors_inside. Qed.
Print Assumptions C05_tree_errors_inside.

(* C05_errors_contained with positions (same hypotheses as C05_containment): the errors of the unchanged declarations
   in front end at or before o, the errors of the damaged region lie in [o, length pre + length mid'] (in
   [o, length pre + length mid] before the damage), the shifted errors behind lie behind that *)
Theorem C05_errors_contained_located : forall pre mid mid' post p p' j k o k2 k2',
  EofLast (pre ++ mid ++ post) -> EofLast (pre ++ mid' ++ post) ->
  parse (pre ++ mid ++ post) = Done p -> parse (pre ++ mid' ++ post) = Done p' ->
  (exists t, nth_error pre j = Some t /\ sync_full (tk t) = true) -> Boundary p k o -> o <= j ->
  Boundary p k2 (length pre + length mid) -> Boundary p' k2' (length pre + length mid') ->
  exists before damaged damaged' after after',
    tree_errors p = before ++ damaged ++ after /\
    tree_errors p' = before ++ damaged' ++ after' /\
    shift_es (length mid') after = shift_es (length mid) after' /\
    before = decl_errors (firstn k (pg_decls p)) /\
    damaged = decl_errors (firstn (k2 - k) (skipn k (pg_decls p))) /\
    damaged' = decl_errors (firstn (k2' - k) (skipn k (pg_decls p'))) /\
    after = decl_errors (skipn k2 (pg_decls p)) /\ after' = decl_errors (skipn k2' (pg_decls p')) /\
    (forall e, In e before -> C05_inside 0 o e) /\
    (forall e, In e damaged -> C05_inside o (length pre + length mid) e) /\
    (forall e, In e damaged' -> C05_inside o (length pre + length mid') e) /\
    (forall e, In e after -> C05_inside (length pre + length mid) (i_e (pg_info p)) e) /\
    (forall e, In e after' -> C05_inside (length pre + length mid') (i_e (pg_info p')) e).
Proof. exact ErrInsideTop.errors_contained_located. Qed.
Print Assumptions C05_errors_contained_located.

(* non-vacuity, and the strict bound fails for the soft class: `proc x ( , proc x ( ) { } Eof` - declaration 0 is the
   tokens 0..3, nxt = 4; the second (empty) parameter declaration has the range 4..4; the other errors sit on 3..3 *)
Example C05_soft_error_example :
  EofLast ErrInsideTop.ex_param /\ parse ErrInsideTop.ex_param = Done (prog_of ErrInsideTop.ex_param) /\
  exists g, nth_error (pg_decls (prog_of ErrInsideTop.ex_param)) 0 = Some (g, 0) /\
    Boundary (prog_of ErrInsideTop.ex_param) 1 4 /\
    In {| e_s := 4; e_e := 4; e_m := EParse (ExpectedToken s_paramdec) |} (shift_es 0 (gdecl_errors g)) /\
    In {| e_s := 3; e_e := 3; e_m := EParse (MissingClosing 125%N) |} (shift_es 0 (gdecl_errors g)).
Proof. exact ErrInsideTop.ex_soft_param. Qed.

(* the same document as a text (ErrInsideTop.ex_param_text = `proc a(, proc b(){}`; [published]: the byte ranges of
   doc_errors of new_doc): the soft diagnostic is published at byte 13, the end of the
   `proc` token (bytes 9..13) of the next declaration *)
Example C05_soft_error_text_example :
  ErrInsideTop.published ErrInsideTop.ex_param_text = Some [(4, 4); (8, 8); (8, 8); (8, 8); (8, 8); (13, 13)]%N /\
  option_map (map (fun t => (ts t, te t))) (lex ErrInsideTop.ex_param_text) =
  Some [(0, 4); (5, 6); (6, 7); (7, 8); (9, 13); (14, 15); (15, 16); (16, 17); (17, 18); (18, 19); (19, 19)]%N.
Proof. exact ErrInsideTop.ex_soft_param_text. Qed.

(* the bound is tight for non-empty ranges as well: in C05_containment_example (`; }` replaced by `} + +`) the damaged
   region is [5, 15] = [o, length xpre + length xmid2]; its errors are 11..11, 11..11 and 13..15 *)
Example C05_located_example :
  let p' := prog_of (xpre ++ xmid2 ++ xpost) in
  map (fun e => (e_s e, e_e e)) (decl_errors (firstn (3 - 1) (skipn 1 (pg_decls p')))) = [(11, 11); (11, 11); (13, 15)] /\
  length xpre + length xmid2 = 15 /\
  (forall e, In e (decl_errors (firstn (3 - 1) (skipn 1 (pg_decls p')))) -> C05_inside 5 (length xpre + length xmid2) e).
Proof. exact ErrInsideTop.ex_located. Qed.

(* ------------------------------------------------------------------------------------------ *)
(* ONE token (Proofs/SingleTokDamage.v): the property in its own terms, hypotheses on the tokens only.
   Original document  pre ++ mid ++ post, damaged document  pre ++ mid' ++ post:
     pre    the untouched tokens in front of the damage; token j of pre is the `proc`/`type` keyword of the damaged
            declaration;
     post = tq :: post'   the untouched tokens from the next SYNCHRONISING token on: tq is the `proc`/`type` keyword of
            the next declaration, or the Eof token (the damaged declaration is the last one; [sync_full]);
     rest   the untouched remainder of the damaged declaration behind the damaged position, so that
              deletion     mid = t :: rest    mid' = rest
              insertion    mid = rest         mid' = t' :: rest
              replacement  mid = t :: rest    mid' = t' :: rest
   Side conditions: the original ends with its only Eof token (every lexer output does, C05_lexer_output_ends_with_eof)
   and an inserted token is not Eof; the token directly in front of tq is not a comment in either version
   [C05_last_not_comment (pre ++ mid)] - a comment there is the doc comment of the declaration tq begins (a trailing
   comment in front of Eof), so the boundary lies in front of it.  For rest <> [] that is a condition on the last token
   of rest alone (C05_last_not_comment_app), for rest = [] on t, t' resp. the last token of pre (the `_last` theorems).
   NOT needed: that t, t' are not declaration keywords (a damage that adds or removes a `proc`/`type` token changes the
   number of declarations of the damaged region k .. k2-1 resp. k .. k2'-1 and nothing else); not needed: validity of
   the original.
   Conclusion [C05_contained_at]: declaration k of the original is the Type/Procedure declaration whose keyword is
   token j, it starts at o in both parses; the declarations in front are identical; the declarations from tq on (k2
   resp. k2') are the same subtrees, offsets moved by the length difference; the syntax diagnostics are
   before ++ damaged ++ after, `before` identical, `after` moved, every diagnostic of the damaged region inside
   [o, index of tq]; both table builds succeed and the tables are related by [table_kept] (see C05_table_contained). *)
From Spl Require Proofs.SingleTokDamage.

Definition C05_last_not_comment (l : list token) : Prop :=
  exists t, nth_error l (length l - 1) = Some t /\ is_comment (tk t) = false.

Definition C05_contained_at (pre mid mid' post : list token) (j : nat) (p p' : program) (k o k2 k2' : nat) : Prop :=
  parse (pre ++ mid ++ post) = Done p /\ parse (pre ++ mid' ++ post) = Done p' /\
  (exists g, nth_error (pg_decls p) k = Some (g, o) /\ is_kw_decl g = true) /\
  sig_at (pre ++ mid ++ post) o = j /\ Boundary p' k o /\
  Boundary p k2 (length pre + length mid) /\ Boundary p' k2' (length pre + length mid') /\ k < k2 /\ k < k2' /\
  firstn k (pg_decls p) = firstn k (pg_decls p') /\
  shift_offs (length mid') (skipn k2 (pg_decls p)) = shift_offs (length mid) (skipn k2' (pg_decls p')) /\
  i_e (pg_info p) + length mid' = i_e (pg_info p') + length mid /\
  (exists before damaged damaged' after after',
    tree_errors p = before ++ damaged ++ after /\
    tree_errors p' = before ++ damaged' ++ after' /\
    shift_es (length mid') after = shift_es (length mid) after' /\
    before = decl_errors (firstn k (pg_decls p)) /\
    damaged = decl_errors (firstn (k2 - k) (skipn k (pg_decls p))) /\
    damaged' = decl_errors (firstn (k2' - k) (skipn k (pg_decls p'))) /\
    after = decl_errors (skipn k2 (pg_decls p)) /\ after' = decl_errors (skipn k2' (pg_decls p')) /\
    (forall e, In e before -> C05_inside 0 o e) /\
    (forall e, In e damaged -> C05_inside o (length pre + length mid) e) /\
    (forall e, In e damaged' -> C05_inside o (length pre + length mid') e) /\
    (forall e, In e after -> C05_inside (length pre + length mid) (i_e (pg_info p)) e) /\
    (forall e, In e after' -> C05_inside (length pre + length mid') (i_e (pg_info p')) e)) /\
  (exists q T q' T',
    build_res p = ROk (q, T) /\ build_res p' = ROk (q', T') /\
    table_kept (length mid) (length mid') (pg_decls p) (pg_decls p') k k2 k2' T T').

Definition C05_contained (pre mid mid' post : list token) (j : nat) : Prop :=
  exists p p' k o k2 k2', C05_contained_at pre mid mid' post j p p' k o k2 k2'.

(* the side condition, token by token *)
Theorem C05_last_not_comment_snoc : forall l t, C05_last_not_comment (l ++ [t]) <-> is_comment (tk t) = false.
Proof. exact SingleTokDamage.last_nc_snoc. Qed.
Print Assumptions C05_last_not_comment_snoc.

Theorem C05_last_not_comment_app : forall l r, r <> [] -> (C05_last_not_comment (l ++ r) <-> C05_last_not_comment r).
Proof. exact SingleTokDamage.last_nc_app. Qed.
Print Assumptions C05_last_not_comment_app.

(* the general form: anything between a declaration keyword and the next proc / type / Eof token is replaced *)
Theorem C05_damaged_declaration : forall pre mid mid' post post' j tj tq,
  EofLast (pre ++ mid ++ post) -> EofLast (pre ++ mid' ++ post) ->
  nth_error pre j = Some tj -> is_declkw (tk tj) = true ->
  post = tq :: post' -> sync_full (tk tq) = true ->
  C05_last_not_comment (pre ++ mid) -> C05_last_not_comment (pre ++ mid') ->
  C05_contained pre mid mid' post j.
Proof. exact SingleTokDamage.damage_contained. Qed.
Print Assumptions C05_damaged_declaration.

Theorem C05_token_deleted : forall pre rest post post' j tj tq t,
  nth_error pre j = Some tj -> is_declkw (tk tj) = true ->
  post = tq :: post' -> sync_full (tk tq) = true ->
  EofLast (pre ++ (t :: rest) ++ post) ->
  C05_last_not_comment (pre ++ t :: rest) -> C05_last_not_comment (pre ++ rest) ->
  C05_contained pre (t :: rest) rest post j.
Proof.
  intros pre rest post post' j tj tq t Hj Hkj Hpost Hsq.
  exact (SingleTokDamage.token_deleted pre rest post post' j tj tq Hj Hkj Hpost Hsq t).
Qed.
Print Assumptions C05_token_deleted.

Theorem C05_token_inserted : forall pre rest post post' j tj tq t',
  nth_error pre j = Some tj -> is_declkw (tk tj) = true ->
  post = tq :: post' -> sync_full (tk tq) = true ->
  EofLast (pre ++ rest ++ post) -> tk t' <> Eof ->
  C05_last_not_comment (pre ++ rest) -> C05_last_not_comment (pre ++ t' :: rest) ->
  C05_contained pre rest (t' :: rest) post j.
Proof.
  intros pre rest post post' j tj tq t' Hj Hkj Hpost Hsq.
  exact (SingleTokDamage.token_inserted pre rest post post' j tj tq Hj Hkj Hpost Hsq t').
Qed.
Print Assumptions C05_token_inserted.

Theorem C05_token_replaced : forall pre rest post post' j tj tq t t',
  nth_error pre j = Some tj -> is_declkw (tk tj) = true ->
  post = tq :: post' -> sync_full (tk tq) = true ->
  EofLast (pre ++ (t :: rest) ++ post) -> tk t' <> Eof ->
  C05_last_not_comment (pre ++ t :: rest) -> C05_last_not_comment (pre ++ t' :: rest) ->
  C05_contained pre (t :: rest) (t' :: rest) post j.
Proof.
  intros pre rest post post' j tj tq t t' Hj Hkj Hpost Hsq.
  exact (SingleTokDamage.token_replaced pre rest post post' j tj tq Hj Hkj Hpost Hsq t t').
Qed.
Print Assumptions C05_token_replaced.

(* rest = []: the damage concerns the last token of the declaration (tq follows directly) *)
Theorem C05_token_deleted_last : forall pre post post' j tj tq t,
  nth_error pre j = Some tj -> is_declkw (tk tj) = true ->
  post = tq :: post' -> sync_full (tk tq) = true ->
  EofLast (pre ++ [t] ++ post) ->
  is_comment (tk t) = false -> C05_last_not_comment pre ->
  C05_contained pre [t] [] post j.
Proof.
  intros pre post post' j tj tq t Hj Hkj Hpost Hsq.
  exact (SingleTokDamage.token_deleted_last pre post post' j tj tq Hj Hkj Hpost Hsq t).
Qed.
Print Assumptions C05_token_deleted_last.

Theorem C05_token_inserted_last : forall pre post post' j tj tq t',
  nth_error pre j = Some tj -> is_declkw (tk tj) = true ->
  post = tq :: post' -> sync_full (tk tq) = true ->
  EofLast (pre ++ post) -> tk t' <> Eof ->
  C05_last_not_comment pre -> is_comment (tk t') = false ->
  C05_contained pre [] [t'] post j.
Proof.
  intros pre post post' j tj tq t' Hj Hkj Hpost Hsq.
  exact (SingleTokDamage.token_inserted_last pre post post' j tj tq Hj Hkj Hpost Hsq t').
Qed.
Print Assumptions C05_token_inserted_last.

Theorem C05_token_inserted_before_last : forall pre post post' j tj tq t t',
  nth_error pre j = Some tj -> is_declkw (tk tj) = true ->
  post = tq :: post' -> sync_full (tk tq) = true ->
  EofLast (pre ++ [t] ++ post) -> tk t' <> Eof ->
  is_comment (tk t) = false ->
  C05_contained pre [t] [t'; t] post j.
Proof.
  intros pre post post' j tj tq t t' Hj Hkj Hpost Hsq.
  exact (SingleTokDamage.token_inserted_before_last pre post post' j tj tq Hj Hkj Hpost Hsq t t').
Qed.
Print Assumptions C05_token_inserted_before_last.

Theorem C05_token_replaced_last : forall pre post post' j tj tq t t',
  nth_error pre j = Some tj -> is_declkw (tk tj) = true ->
  post = tq :: post' -> sync_full (tk tq) = true ->
  EofLast (pre ++ [t] ++ post) -> tk t' <> Eof ->
  is_comment (tk t) = false -> is_comment (tk t') = false ->
  C05_contained pre [t] [t'] post j.
Proof.
  intros pre post post' j tj tq t t' Hj Hkj Hpost Hsq.
  exact (SingleTokDamage.token_replaced_last pre post post' j tj tq Hj Hkj Hpost Hsq t t').
Qed.
Print Assumptions C05_token_replaced_last.

(* non-vacuity: the three-declaration document
     type x = x ; proc x ( ) { x := x ; } type x = x ; Eof        (declarations at 0, 5, 15; end 20)
   [SingleTokDamage.epre] = tokens 0..11, [tok idx] = token 12 (the right-hand side `x`), [erest] = `; }`,
   [epost] = `type x = x ; Eof`.  First conjunct: the theorem applies (all hypotheses hold); second conjunct: the
   witnesses k, o, k2, k2'. *)
(* token 12 deleted (`x := ; }`): k = 1, o = 5, k2 = k2' = 2 *)
Example C05_token_deleted_example :
  let pre := SingleTokDamage.epre in let t := SingleTokDamage.tok idx in
  let rest := SingleTokDamage.erest in let post := SingleTokDamage.epost in
  C05_contained pre (t :: rest) rest post 5 /\
  C05_contained_at pre (t :: rest) rest post 5 (prog_of (pre ++ (t :: rest) ++ post)) (prog_of (pre ++ rest ++ post)) 1 5 2 2.
Proof. exact SingleTokDamage.ex_deleted. Qed.
Print Assumptions C05_token_deleted_example.

(* `}` inserted behind token 12 (`x := x } ; }`): the procedure ends early and `; }` becomes an Error declaration of
   the damaged region: k = 1, o = 5, k2 = 2, k2' = 3 *)
Example C05_token_inserted_example :
  let pre := SingleTokDamage.epre ++ [SingleTokDamage.tok idx] in let t' := SingleTokDamage.tok RCurly in
  let rest := SingleTokDamage.erest in let post := SingleTokDamage.epost in
  C05_contained pre rest (t' :: rest) post 5 /\
  C05_contained_at pre rest (t' :: rest) post 5 (prog_of (pre ++ rest ++ post)) (prog_of (pre ++ (t' :: rest) ++ post)) 1 5 2 3.
Proof. exact SingleTokDamage.ex_inserted. Qed.
Print Assumptions C05_token_inserted_example.

(* token 12 replaced by `)` (`x := ) ; }`): k = 1, o = 5, k2 = k2' = 2 *)
Example C05_token_replaced_example :
  let pre := SingleTokDamage.epre in let t := SingleTokDamage.tok idx in let t' := SingleTokDamage.tok RParen in
  let rest := SingleTokDamage.erest in let post := SingleTokDamage.epost in
  C05_contained pre (t :: rest) (t' :: rest) post 5 /\
  C05_contained_at pre (t :: rest) (t' :: rest) post 5
    (prog_of (pre ++ (t :: rest) ++ post)) (prog_of (pre ++ (t' :: rest) ++ post)) 1 5 2 2.
Proof. exact SingleTokDamage.ex_replaced. Qed.
Print Assumptions C05_token_replaced_example.

(* the LAST declaration is damaged (tq = Eof): token 17 (`=`) of the same document deleted (`type x x ;`):
   k = 2, o = 15, k2 = k2' = 3 = the number of declarations *)
Example C05_token_deleted_in_last_declaration_example :
  let pre := SingleTokDamage.epre_last in let t := SingleTokDamage.tok EqT in
  let rest := SingleTokDamage.erest_last in let post := SingleTokDamage.epost_last in
  pre ++ (t :: rest) ++ post = SingleTokDamage.epre ++ (SingleTokDamage.tok idx :: SingleTokDamage.erest) ++ SingleTokDamage.epost /\
  C05_contained pre (t :: rest) rest post 15 /\
  C05_contained_at pre (t :: rest) rest post 15 (prog_of (pre ++ (t :: rest) ++ post)) (prog_of (pre ++ rest ++ post)) 2 15 3 3.
Proof. split; [exact SingleTokDamage.e_same | exact SingleTokDamage.ex_deleted_in_last]. Qed.
Print Assumptions C05_token_deleted_in_last_declaration_example.

(* the diagnostics of the original and the four damaged documents (token ranges): each inside [o, index of tq] =
   [5, 14], [5, 16], [5, 15] resp. [15, 19] *)
Example C05_token_examples_diagnostics :
  let pre := SingleTokDamage.epre in let t := SingleTokDamage.tok idx in
  let rest := SingleTokDamage.erest in let post := SingleTokDamage.epost in
  map (fun e => (e_s e, e_e e)) (tree_errors (prog_of (pre ++ (t :: rest) ++ post))) = [] /\
  map (fun e => (e_s e, e_e e)) (tree_errors (prog_of (pre ++ rest ++ post))) = [(11, 11)] /\
  map (fun e => (e_s e, e_e e)) (tree_errors (prog_of ((pre ++ [t]) ++ (SingleTokDamage.tok RCurly :: rest) ++ post))) = [(12, 12); (14, 16)] /\
  map (fun e => (e_s e, e_e e)) (tree_errors (prog_of (pre ++ (SingleTokDamage.tok RParen :: rest) ++ post))) = [(11, 11); (11, 11); (12, 13)] /\
  map (fun e => (e_s e, e_e e))
    (tree_errors (prog_of (SingleTokDamage.epre_last ++ SingleTokDamage.erest_last ++ SingleTokDamage.epost_last))) = [(16, 16)].
Proof. exact SingleTokDamage.ex_diagnostics. Qed.
