(* C05 - a syntax error stays contained in the declaration it occurs in.  Statements only.

   What is proved, for ALL token lists that end with their only Eof (every lexer output, C06):
   error recovery resynchronises at every `proc` / `type` keyword (C05_sync: the Type/Procedure
   declarations of the tree are in one-to-one, order-preserving correspondence with the `proc`/`type`
   tokens), the declarations tile the token vector without gaps or overlaps (C05_spans,
   C05_per_declaration), and what is parsed for a declaration depends only on the tokens up to the
   next `proc`/`type`/Eof token (C05_locality) - so a damage cannot influence any declaration in
   front of it, and the declarations behind it start at their own keywords again.
   Not proved: the shift-invariance half of containment (the declarations BEHIND a damage are parsed
   to the same subtrees, offsets shifted) and the table part; they are decided by the check's
   exhaustive single-token damage campaign.  C05_full_statement keeps the complete property visible. *)
From Spl Require Import Model.Lexer Model.Parser Proofs.ParserTotal Proofs.ParserSync Proofs.ParserFwd Proofs.ParserProofs
  Proofs.PipelineProofs.
Local Open Scope nat_scope.

Theorem C05_lexer_output_ends_with_eof : forall s toks, lex s = Some toks -> EofLast toks.
Proof. exact lex_eoflast. Qed.
Print Assumptions C05_lexer_output_ends_with_eof.

Theorem C05_sync : forall toks prog,
  EofLast toks -> parse toks = Done prog ->
  decl_heads toks (pg_decls prog) = kw_in toks 0 (length toks).
Proof. exact T5_heads. Qed.
Print Assumptions C05_sync.

Theorem C05_spans : forall toks prog,
  EofLast toks -> parse toks = Done prog ->
  Spans toks 0 (pg_decls prog) (i_e (pg_info prog)) /\
  i_s (pg_info prog) = 0 /\
  sig_at toks (i_e (pg_info prog)) = length toks - 1.
Proof. exact T5_sync. Qed.
Print Assumptions C05_spans.

Theorem C05_per_declaration : forall toks prog i g off,
  EofLast toks -> parse toks = Done prog -> nth_error (pg_decls prog) i = Some (g, off) ->
  off + i_e (gdecl_info g) <= i_e (pg_info prog) /\ 0 < i_e (gdecl_info g) /\ i_s (gdecl_info g) = 0 /\
  decl_span toks g off (off + i_e (gdecl_info g)) /\
  match nth_error (pg_decls prog) (S i) with
  | Some (_, off') => off' = off + i_e (gdecl_info g)
  | None => off + i_e (gdecl_info g) = i_e (pg_info prog)
  end /\
  (i = 0 -> off = 0).
Proof. exact T5_per_declaration. Qed.
Print Assumptions C05_per_declaration.

Theorem C05_locality : forall toks1 toks2 fuel j s,
  (forall i, i <= j -> nth_error toks1 i = nth_error toks2 i) ->
  (exists t, nth_error toks1 j = Some t /\ sync_full (tk t) = true) ->
  sig_at toks1 (pos s) < j ->
  p_gdecl toks1 fuel s = p_gdecl toks2 fuel s /\
  (forall s' g, p_gdecl toks1 fuel s = POk s' g -> pos s' <= j).
Proof. exact T6_locality. Qed.
Print Assumptions C05_locality.

(* the complete property, over token lists: replacing the tokens [a, b) of one declaration's span by
   other non-synchronising tokens leaves every other declaration's subtree unchanged (offsets behind
   the damage shifted by the length difference) and puts every syntax error inside the damaged span *)
Definition same_decls_before (p p' : program) (k : nat) : Prop :=
  firstn k (pg_decls p) = firstn k (pg_decls p').
Definition same_decls_after (p p' : program) (k : nat) (old_len new_len : nat) : Prop :=
  map (fun go => (fst go, snd go + new_len)) (skipn (S k) (pg_decls p)) =
  map (fun go => (fst go, snd go + old_len)) (skipn (S k) (pg_decls p')).
Definition C05_full_statement : Prop :=
  forall pre mid mid' post p p' k,
    EofLast (pre ++ mid ++ post) -> EofLast (pre ++ mid' ++ post) ->
    Forall (fun t => sync_full (tk t) = false) mid -> Forall (fun t => sync_full (tk t) = false) mid' ->
    parse (pre ++ mid ++ post) = Done p -> parse (pre ++ mid' ++ post) = Done p' ->
    (* the damage lies inside declaration k, behind its keyword *)
    (exists g off, nth_error (pg_decls p) k = Some (g, off) /\
                   sig_at (pre ++ mid ++ post) off < length pre /\ length pre + length mid <= off + i_e (gdecl_info g)) ->
    (* ... and the declaration has no syntax error before the damage (valid program) *)
    same_decls_before p p' k /\ same_decls_after p p' k (length mid) (length mid').

(* non-vacuity: the examples of Proofs/ParserProofs.v (ex1: garbage then two type declarations) *)
Example C05_example :
  kw_in ex1 0 (length ex1) = [(3, KType); (7, KType)] /\ EofLast ex1.
Proof. split; [exact ex1_heads | exact ex1_eoflast]. Qed.
