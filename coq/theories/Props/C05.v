(* C05 - a syntax error stays contained in the declaration it occurs in.  Statements only.

   What is proved, for ALL token lists that end with their only Eof (every lexer output, C06):
   error recovery resynchronises at every `proc` / `type` keyword (C05_sync: the Type/Procedure
   declarations of the tree are in one-to-one, order-preserving correspondence with the `proc`/`type`
   tokens), the declarations tile the token vector without gaps or overlaps (C05_spans,
   C05_per_declaration), and what is parsed for a declaration depends only on the tokens up to the
   next `proc`/`type`/Eof token (C05_locality) - so a damage cannot influence any declaration in
   front of it, and the declarations behind it start at their own keywords again.
   The shift-invariance half of containment is proved too (second part of this file, from
   Proofs/ParserShift*.v): from a declaration boundary on the tree is the parse of the remaining tokens
   as a document of their own (C05_suffix_as_document, C05_suffix_independent); in front of a proc/type
   token nothing depends on what follows it (C05_prefix_independent); together: a replacement of tokens
   between a declaration keyword and a later declaration boundary leaves every declaration in front
   unchanged and moves the identical subtrees behind it by the length difference, syntax errors included
   (C05_containment, C05_containment_between_keywords, C05_errors_contained).
   C05_full_statement as first written is too strong for the model and is refuted
   (C05_full_statement_refuted); C05_contained_in_one_declaration is the version that holds.
   Not proved: the table part; it is decided by the check's exhaustive single-token damage campaign. *)
From Spl Require Import Model.Lexer Model.Parser Model.Errors Proofs.ParserTotal Proofs.ParserSync Proofs.ParserFwd Proofs.ParserProofs
  Proofs.PipelineProofs Proofs.ParserShiftProofs.
Local Open Scope nat_scope.

Theorem C05_lexer_output_ends_with_eof : forall s toks, lex s = Some toks -> EofLast toks.
Proof. exact lex_eoflast. Qed.
Print Assumptions C05_lexer_output_ends_with_eof.

Theorem C05_sync : forall toks prog,
  EofLast toks -> parse toks = Done prog ->
  decl_heads toks (pg_decls prog) = kw_in toks 0 (length toks).
Proof. exact T5_heads. Qed.
Print Assumptions C05_sync.

Theorem C05_spans : forall toks prog,
  EofLast toks -> parse toks = Done prog ->
  Spans toks 0 (pg_decls prog) (i_e (pg_info prog)) /\
  i_s (pg_info prog) = 0 /\
  sig_at toks (i_e (pg_info prog)) = length toks - 1.
Proof. exact T5_sync. Qed.
Print Assumptions C05_spans.

Theorem C05_per_declaration : forall toks prog i g off,
  EofLast toks -> parse toks = Done prog -> nth_error (pg_decls prog) i = Some (g, off) ->
  off + i_e (gdecl_info g) <= i_e (pg_info prog) /\ 0 < i_e (gdecl_info g) /\ i_s (gdecl_info g) = 0 /\
  decl_span toks g off (off + i_e (gdecl_info g)) /\
  match nth_error (pg_decls prog) (S i) with
  | Some (_, off') => off' = off + i_e (gdecl_info g)
  | None => off + i_e (gdecl_info g) = i_e (pg_info prog)
  end /\
  (i = 0 -> off = 0).
Proof. exact T5_per_declaration. Qed.
Print Assumptions C05_per_declaration.

Theorem C05_locality : forall toks1 toks2 fuel j s,
  (forall i, i <= j -> nth_error toks1 i = nth_error toks2 i) ->
  (exists t, nth_error toks1 j = Some t /\ sync_full (tk t) = true) ->
  sig_at toks1 (pos s) < j ->
  p_gdecl toks1 fuel s = p_gdecl toks2 fuel s /\
  (forall s' g, p_gdecl toks1 fuel s = POk s' g -> pos s' <= j).
Proof. exact T6_locality. Qed.
Print Assumptions C05_locality.

(* the complete property, over token lists: replacing the tokens [a, b) of one declaration's span by
   other non-synchronising tokens leaves every other declaration's subtree unchanged (offsets behind
   the damage shifted by the length difference) and puts every syntax error inside the damaged span *)
Definition same_decls_before (p p' : program) (k : nat) : Prop :=
  firstn k (pg_decls p) = firstn k (pg_decls p').
Definition same_decls_after (p p' : program) (k : nat) (old_len new_len : nat) : Prop :=
  map (fun go => (fst go, snd go + new_len)) (skipn (S k) (pg_decls p)) =
  map (fun go => (fst go, snd go + old_len)) (skipn (S k) (pg_decls p')).
Definition C05_full_statement : Prop :=
  forall pre mid mid' post p p' k,
    EofLast (pre ++ mid ++ post) -> EofLast (pre ++ mid' ++ post) ->
    Forall (fun t => sync_full (tk t) = false) mid -> Forall (fun t => sync_full (tk t) = false) mid' ->
    parse (pre ++ mid ++ post) = Done p -> parse (pre ++ mid' ++ post) = Done p' ->
    (* the damage lies inside declaration k, behind its keyword *)
    (exists g off, nth_error (pg_decls p) k = Some (g, off) /\
                   sig_at (pre ++ mid ++ post) off < length pre /\ length pre + length mid <= off + i_e (gdecl_info g)) ->
    (* ... and the declaration has no syntax error before the damage (valid program) *)
    same_decls_before p p' k /\ same_decls_after p p' k (length mid) (length mid').

(* non-vacuity: the examples of Proofs/ParserProofs.v (ex1: garbage then two type declarations) *)
Example C05_example :
  kw_in ex1 0 (length ex1) = [(3, KType); (7, KType)] /\ EofLast ex1.
Proof. split; [exact ex1_heads | exact ex1_eoflast]. Qed.

(* ------------------------------------------------------------------------------------------ *)
(* the shift-invariance half (Proofs/ParserShiftProofs.v).
   [Boundary p k b]: token index b is the start offset of declaration k of p, or - for k = number of
   declarations - the end of the declarations.  [shift_offs d l]: the same declarations (identical
   subtrees: all ranges inside a declaration are relative to it), offsets moved by d. *)

(* from a declaration boundary on, the tree is the tree of the remaining tokens parsed on their own *)
Theorem C05_suffix_as_document : forall pre post p k,
  EofLast (pre ++ post) -> parse (pre ++ post) = Done p -> Boundary p k (length pre) ->
  exists p0, parse post = Done p0 /\ EofLast post /\
    skipn k (pg_decls p) = shift_offs (length pre) (pg_decls p0) /\
    i_e (pg_info p) = i_e (pg_info p0) + length pre.
Proof. exact S2_suffix_as_document. Qed.
Print Assumptions C05_suffix_as_document.

Theorem C05_suffix_independent : forall pre pre' post p p' k k',
  EofLast (pre ++ post) -> EofLast (pre' ++ post) ->
  parse (pre ++ post) = Done p -> parse (pre' ++ post) = Done p' ->
  Boundary p k (length pre) -> Boundary p' k' (length pre') ->
  map (fun go => (fst go, snd go - length pre)) (skipn k (pg_decls p)) =
  map (fun go => (fst go, snd go - length pre')) (skipn k' (pg_decls p')) /\
  i_e (pg_info p) - length pre = i_e (pg_info p') - length pre' /\
  map (fun go => (fst go, snd go + length pre')) (skipn k (pg_decls p)) =
  map (fun go => (fst go, snd go + length pre)) (skipn k' (pg_decls p')) /\
  i_e (pg_info p) + length pre' = i_e (pg_info p') + length pre.
Proof. exact S2_suffix_independent. Qed.
Print Assumptions C05_suffix_independent.

(* the declarations starting at or before a proc/type/Eof token (index j) do not depend on what follows it *)
Theorem C05_prefix_independent : forall toks toks' p p' j k o,
  parse toks = Done p -> parse toks' = Done p' ->
  (forall i, i <= j -> nth_error toks i = nth_error toks' i) ->
  (exists t, nth_error toks j = Some t /\ sync_full (tk t) = true) ->
  Boundary p k o -> o <= j ->
  firstn k (pg_decls p) = firstn k (pg_decls p') /\ Boundary p' k o.
Proof. exact S3_prefix_independent. Qed.
Print Assumptions C05_prefix_independent.

(* containment: the tokens mid are replaced by mid'; a proc/type token of the untouched prefix (index j)
   belongs to declaration k or a later one (o <= j); the replaced tokens end at a declaration boundary
   of either parse *)
Theorem C05_containment : forall pre mid mid' post p p' j k o k2 k2',
  EofLast (pre ++ mid ++ post) -> EofLast (pre ++ mid' ++ post) ->
  parse (pre ++ mid ++ post) = Done p -> parse (pre ++ mid' ++ post) = Done p' ->
  (exists t, nth_error pre j = Some t /\ sync_full (tk t) = true) -> Boundary p k o -> o <= j ->
  Boundary p k2 (length pre + length mid) -> Boundary p' k2' (length pre + length mid') ->
  firstn k (pg_decls p) = firstn k (pg_decls p') /\ Boundary p' k o /\
  shift_offs (length mid') (skipn k2 (pg_decls p)) = shift_offs (length mid) (skipn k2' (pg_decls p')) /\
  i_e (pg_info p) + length mid' = i_e (pg_info p') + length mid /\
  k < k2 /\ k < k2'.
Proof. exact S4_containment. Qed.
Print Assumptions C05_containment.

(* the same with hypotheses on the tokens only: replace anything between a proc/type token and a later
   proc/type token that no comment directly precedes *)
Theorem C05_containment_between_keywords : forall pre mid mid' post post' p p' j tj tq,
  EofLast (pre ++ mid ++ post) -> EofLast (pre ++ mid' ++ post) ->
  parse (pre ++ mid ++ post) = Done p -> parse (pre ++ mid' ++ post) = Done p' ->
  nth_error pre j = Some tj -> is_declkw (tk tj) = true ->
  post = tq :: post' -> is_declkw (tk tq) = true ->
  (exists t', nth_error (pre ++ mid) (length pre + length mid - 1) = Some t' /\ is_comment (tk t') = false) ->
  (exists t', nth_error (pre ++ mid') (length pre + length mid' - 1) = Some t' /\ is_comment (tk t') = false) ->
  exists k g o k2 k2',
    nth_error (pg_decls p) k = Some (g, o) /\ is_kw_decl g = true /\ sig_at (pre ++ mid ++ post) o = j /\
    Boundary p k2 (length pre + length mid) /\ Boundary p' k2' (length pre + length mid') /\
    firstn k (pg_decls p) = firstn k (pg_decls p') /\ Boundary p' k o /\
    shift_offs (length mid') (skipn k2 (pg_decls p)) = shift_offs (length mid) (skipn k2' (pg_decls p')) /\
    i_e (pg_info p) + length mid' = i_e (pg_info p') + length mid /\
    k < k2 /\ k < k2'.
Proof. exact S4_containment_between_keywords. Qed.
Print Assumptions C05_containment_between_keywords.

(* the published syntax errors: unchanged in front, the same errors at shifted positions behind *)
Theorem C05_errors_contained : forall pre mid mid' post p p' j k o k2 k2',
  EofLast (pre ++ mid ++ post) -> EofLast (pre ++ mid' ++ post) ->
  parse (pre ++ mid ++ post) = Done p -> parse (pre ++ mid' ++ post) = Done p' ->
  (exists t, nth_error pre j = Some t /\ sync_full (tk t) = true) -> Boundary p k o -> o <= j ->
  Boundary p k2 (length pre + length mid) -> Boundary p' k2' (length pre + length mid') ->
  exists before damaged damaged' after after',
    tree_errors p = before ++ damaged ++ after /\
    tree_errors p' = before ++ damaged' ++ after' /\
    shift_es (length mid') after = shift_es (length mid) after' /\
    before = decl_errors (firstn k (pg_decls p)) /\
    damaged = decl_errors (firstn (k2 - k) (skipn k (pg_decls p))) /\
    damaged' = decl_errors (firstn (k2' - k) (skipn k (pg_decls p'))) /\
    after = decl_errors (skipn k2 (pg_decls p)) /\ after' = decl_errors (skipn k2' (pg_decls p')).
Proof. exact S4_errors_contained. Qed.
Print Assumptions C05_errors_contained.

(* C05_full_statement does not hold of the model: a damage may end the damaged declaration early, and
   the rest of its old span then becomes an additional Error declaration
   (`proc x ( ) { x := x ; } type ...` with the first `x` of the body replaced by `}`) *)
Theorem C05_full_statement_refuted : ~ C05_full_statement.
Proof. exact full_statement_v0_refuted. Qed.
Print Assumptions C05_full_statement_refuted.

(* what holds instead: when the replaced tokens reach to the end of declaration k in both parses (and a
   proc/type token of declaration k or a later one lies in front of them), the conclusion of
   C05_full_statement follows *)
Theorem C05_contained_in_one_declaration : forall pre mid mid' post p p' j k o,
  EofLast (pre ++ mid ++ post) -> EofLast (pre ++ mid' ++ post) ->
  parse (pre ++ mid ++ post) = Done p -> parse (pre ++ mid' ++ post) = Done p' ->
  (exists t, nth_error pre j = Some t /\ sync_full (tk t) = true) -> Boundary p k o -> o <= j ->
  Boundary p (S k) (length pre + length mid) -> Boundary p' (S k) (length pre + length mid') ->
  same_decls_before p p' k /\ same_decls_after p p' k (length mid) (length mid').
Proof.
  intros pre mid mid' post p p' j k o HE HE' Hp Hp' Hj Hb Ho Hb2 Hb2'.
  destruct (S4_containment pre mid mid' post p p' j k o (S k) (S k) HE HE' Hp Hp' Hj Hb Ho Hb2 Hb2') as (A & _ & B & _).
  split; [exact A | exact B].
Qed.
Print Assumptions C05_contained_in_one_declaration.

(* non-vacuity: `type x = x ; proc x ( ) { x := ; } type x = x Eof` with `; }` replaced by `}` resp. by
   `} + +` (Proofs/ParserShiftProofs.v) - all hypotheses of C05_containment hold, the second damage
   adds an Error declaration (k2 = 2, k2' = 3) *)
Example C05_containment_example :
  let p := prog_of (xpre ++ xmid ++ xpost) in let p' := prog_of (xpre ++ xmid2 ++ xpost) in
  firstn 1 (pg_decls p) = firstn 1 (pg_decls p') /\ Boundary p' 1 5 /\
  shift_offs 3 (skipn 2 (pg_decls p)) = shift_offs 2 (skipn 3 (pg_decls p')) /\
  i_e (pg_info p) + 3 = i_e (pg_info p') + 2 /\ 1 < 2 /\ 1 < 3.
Proof. exact S4_example_extra_declaration. Qed.

Example C05_one_declaration_example :
  same_decls_before (prog_of (xpre ++ xmid ++ xpost)) (prog_of (xpre ++ xmid1 ++ xpost)) 1 /\
  same_decls_after (prog_of (xpre ++ xmid ++ xpost)) (prog_of (xpre ++ xmid1 ++ xpost)) 1 2 1.
Proof. split; vm_compute; reflexivity. Qed.
