(* C01 - incremental re-analysis equals analysis from scratch.  Statements only.

   AnalyzedSource::update works in layers (lib.rs): text (replace_range), tokens (lexer::update),
   tree (parser::update with the window lexer::update reported), then table and build/semantic
   diagnostics, which are recomputed from the tree.  Model/Update.v is the part up to the tree:
   `pnew t` = AnalyzedSource::new t up to the tree, `pstep doc a d b ins` = one change replacing d
   by ins in the text a ++ d ++ b, `phist` = a history of changes.

   What is proved: along EVERY history the text and the token stream (kinds, values, byte ranges,
   lexical errors) are those of a fresh analysis of the final text, and the lexer never fails
   (C01_text_tokens); if the tree of the final document is the scratch tree, the whole document is
   the freshly analysed one (C01_partial).  The remaining hypothesis - the incremental parser agrees
   with a parse from scratch - is FALSE of the code (C01_tree_refuted): known finding C01-incparse.
   The check therefore relies on the correspondence for the tree layer: Model/ParserInc.v
   transcribes the pinned algorithm and predicts every divergence of the real parser::update.

   Positive part (end of this file, Proofs/IncPositive*.v): the tree layer HOLDS for BLANK EDITS - changes
   for which lexer::update reports an empty TokenChange (white space typed or removed in a gap between
   tokens) - of a text without parse errors and without a comment directly before a comma
   (C01_holds_for_blank_edits, for whole histories of such edits; C01_holds_for_empty_token_change on
   token vectors, for any old tree that is the scratch tree up to build/semantic messages;
   C01_holds_for_blank_edits_document for AnalyzedSource::update on whole documents, which starts from
   the ANALYSED tree - table::build/analyze only append messages, C01_analysis_appends_messages_only).
   Each of the three hypotheses is necessary: C01_blank_needs_*.  A purely textual sufficient condition
   for a blank edit (`gap_changeb`: white space is replaced by white space, and every token of the old
   text either ends, look-ahead byte included, before the change or starts behind the deleted range):
   C01_gap_edit_is_blank, C01_holds_for_white_space_edits(_document). *)
From Spl Require Import Model.Update Proofs.UpdateProofs.

Definition C01_full_statement : Prop :=
  forall t h doc0 doc',
    pnew t = Done doc0 -> valid_hist t h -> phist doc0 h = Done doc' ->
    pnew (final_text t h) = Done doc'.

Theorem C01_text_tokens : forall t h doc0 doc',
  pnew t = Done doc0 -> valid_hist t h -> phist doc0 h = Done doc' ->
  p_text doc' = final_text t h /\ lex (final_text t h) = Some (p_toks doc').
Proof. exact hist_from_new. Qed.
Print Assumptions C01_text_tokens.

(* a step can only fail inside the incremental parser: lexer::update always succeeds and returns
   the fresh token stream *)
Theorem C01_lexer_total : forall doc a d b ins,
  p_text doc = a ++ d ++ b -> lex (p_text doc) = Some (p_toks doc) ->
  exists toks ws we n,
    lex_update (a ++ ins ++ b) (p_toks doc) (blen a) (blen a + blen d) ins = UDone toks ws we n /\
    lex (a ++ ins ++ b) = Some toks.
Proof. exact pstep_lexer_total. Qed.
Print Assumptions C01_lexer_total.

Theorem C01_partial : forall t h doc0 doc',
  pnew t = Done doc0 -> valid_hist t h -> phist doc0 h = Done doc' ->
  parse (p_toks doc') = Done (p_tree doc') ->
  pnew (final_text t h) = Done doc'.
Proof. exact hist_partial. Qed.
Print Assumptions C01_partial.

(* inserting `;` between `proc` and the name in `proc m(){a:=1;}`: the incrementally updated tree
   is not the tree of a parse from scratch *)
Theorem C01_tree_refuted :
  exists doc0 doc',
    pnew (w_a ++ [] ++ w_b) = Done doc0 /\
    pstep doc0 w_a [] w_b w_ins = Done doc' /\
    parse (p_toks doc') <> Done (p_tree doc').
Proof. exact tree_refuted. Qed.
Print Assumptions C01_tree_refuted.

Theorem C01_full_statement_refuted : ~ C01_full_statement.
Proof. exact full_statement_refuted. Qed.
Print Assumptions C01_full_statement_refuted.

(* non-vacuity: a two-step history on a real program (insert a statement, then delete it again) on
   which the incremental parser does agree *)
Example C01_example :
  let t := w_a ++ w_b in                                   (* "proc m(){a:=1;}" *)
  let a1 := w_a ++ [109; 40; 41; 123] in                   (* "proc m(){" *)
  let b1 := [97; 58; 61; 49; 59; 125] in                   (* "a:=1;}" *)
  match pnew t with
  | Done d0 =>
      match phist d0 [ {| c_a := a1; c_d := []; c_b := b1; c_ins := [59] |};
                       {| c_a := a1; c_d := [59]; c_b := b1; c_ins := [] |} ] with
      | Done d2 => p_text d2 = t /\ parse (p_toks d2) = Done (p_tree d2)
      | _ => False
      end
  | _ => False
  end.
Proof. vm_compute. split; reflexivity. Qed.

(* ------------------------------------------------------------------------------------------ *)
(* Layer (iv) and the tie between the two parser models (Proofs/UpdateDocProofs*.v).
   `update_doc` (Model/UpdateDoc.v) = AnalyzedSource::update on whole documents, `new_doc`
   (Model/Errors.v) = AnalyzedSource::new; a history is a list of notifications, each a list of
   changes (`update_hist`).  `parse_only p`: every error attached to any AstInfo of p is a parse
   error. *)
From Spl Require Import Model.UpdateDoc Proofs.UpdateDocProofsStrip Proofs.UpdateDocProofsInv
  Proofs.UpdateDocProofsSim Proofs.UpdateDocProofs.

(* G2: parser::update never hands a stale build or semantic message on, whatever the old tree -
   reused nodes have passed remove_messages on EVERY AstInfo, re-parsed nodes take their errors from
   the parser's buffer *)
Theorem C01_no_stale_messages : forall old toks ws we n p,
  parse_update old toks ws we n = Done p -> parse_only p.
Proof. exact parse_update_parse_only. Qed.
Print Assumptions C01_no_stale_messages.

(* ... in terms of errors(): every diagnostic collected from that tree is a parse error *)
Theorem C01_no_stale_diagnostics : forall old toks ws we n p,
  parse_update old toks ws we n = Done p -> forall e, In e (tree_errors p) -> exists m, e_m e = EParse m.
Proof. exact parse_update_errors. Qed.
Print Assumptions C01_no_stale_diagnostics.

(* ... and on documents: a notification with at least one change recomputes table and build /
   semantic diagnostics from a tree that carries parse errors only *)
Theorem C01_no_stale_document : forall d cs d',
  cs <> [] -> update_doc d cs = Done d' ->
  exists pd, psteps (pdoc_of d) cs = Done pd /\ parse_only (p_tree pd) /\ analyse_pdoc pd = Done d'.
Proof. exact update_doc_no_stale. Qed.
Print Assumptions C01_no_stale_document.

(* text and tokens of the DOCUMENT along every history of notifications *)
Theorem C01_document_text_tokens : forall t h d0 d',
  new_doc t = Done d0 -> valid_hist t (concat h) -> update_hist d0 h = Done d' ->
  d_text d' = final_text t (concat h) /\ lex (final_text t (concat h)) = Some (d_toks d').
Proof. exact update_hist_from_new. Qed.
Print Assumptions C01_document_text_tokens.

(* G1: C01_partial lifted to documents (text, tokens, analysed tree with every diagnostic, table):
   after any history of notifications h ++ [cs], if the parse-level tree of the last notification
   (`psteps`, the fold inside AnalyzedSource::update) is the scratch tree of its tokens, the
   updated document is exactly the freshly analysed final text *)
Theorem C01_partial_document : forall t h cs d0 d1 pd d',
  cs <> [] -> new_doc t = Done d0 -> valid_hist t (concat (h ++ [cs])) ->
  update_hist d0 h = Done d1 ->
  psteps (pdoc_of d1) cs = Done pd ->
  parse (p_toks pd) = Done (p_tree pd) ->
  update_doc d1 cs = Done d' ->
  new_doc (final_text t (concat (h ++ [cs]))) = Done d'.
Proof. exact hist_partial_document. Qed.
Print Assumptions C01_partial_document.

(* DESIGN `rebuild_irrelevant`, in the form that is true: updated and scratch tree both carry parse
   errors only, so agreeing up to build/semantic messages is agreeing *)
Theorem C01_rebuild_irrelevant : forall old toks ws we n p q,
  parse_update old toks ws we n = Done p -> parse toks = Done q ->
  strip_program p = strip_program q -> p = q.
Proof. exact rebuild_irrelevant. Qed.
Print Assumptions C01_rebuild_irrelevant.

(* G3: the incremental machinery without an old tree is the scratch parser - for every token list
   (and, `inc_none_is_scratch`, every fuel, state and TokenChange) *)
Theorem C01_inc_none_is_scratch : forall toks, parse_via_inc toks = parse toks.
Proof. exact parse_via_inc_is_parse. Qed.
Print Assumptions C01_inc_none_is_scratch.

(* a notification with an EMPTY change list is not covered by G2 and violates the property: the
   analysed tree is analysed again and every build/semantic diagnostic doubles (candidate defect
   C01-empty-notification, witness `proc main(){x:=1;}`) *)
Theorem C01_empty_notification_is_identity : forall d, update_doc d [] = Done d.
Proof. exact empty_notification_is_identity. Qed.
Print Assumptions C01_empty_notification_is_identity.

(* regression witness of the defect repaired in /repo (an empty change list used to duplicate every build and semantic
   diagnostic): `proc main(){x:=1;}` has one diagnostic before and after an empty notification *)
Example C01_empty_notification_example : nil_check = true.
Proof. exact nil_check_true. Qed.

(* ---- non-vacuity ---- *)
(* `proc main(){x:=1;}` -> insert `;` before `}`: the analysed tree carries a semantic message
   (remove_messages changes it), the tree of the update does not *)
Example C01_no_stale_example :
  let a := [112; 114; 111; 99; 32; 109; 97; 105; 110; 40; 41; 123; 120; 58; 61; 49; 59]%N in
  match new_doc w_nil with
  | Done d0 =>
      strip_program (d_ast d0) <> d_ast d0 /\
      match psteps (pdoc_of d0) [ {| c_a := a; c_d := []; c_b := [125]%N; c_ins := [59]%N |} ] with
      | Done pd => strip_program (p_tree pd) = p_tree pd /\ parse (p_toks pd) = Done (p_tree pd)
      | _ => False
      end
  | _ => False
  end.
Proof. vm_compute. split; [intros H; discriminate H | split; reflexivity]. Qed.

(* two notifications on `proc m(){a:=1;}` (two build/semantic diagnostics): insert `;`, delete it *)
Example C01_partial_document_example :
  let t := w_a ++ w_b in
  let a1 := w_a ++ [109; 40; 41; 123] in
  let b1 := [97; 58; 61; 49; 59; 125] in
  let n1 := [ {| c_a := a1; c_d := []; c_b := b1; c_ins := [59] |} ] in
  let n2 := [ {| c_a := a1; c_d := [59]; c_b := b1; c_ins := [] |} ] in
  match new_doc t with
  | Done d0 =>
      match update_hist d0 [n1] with
      | Done d1 =>
          match psteps (pdoc_of d1) n2 with
          | Done pd =>
              valid_hist t (concat ([n1] ++ [n2])) /\ parse (p_toks pd) = Done (p_tree pd) /\
              update_doc d1 n2 = Done d0 /\ strip_program (d_ast d0) <> d_ast d0
          | _ => False
          end
      | _ => False
      end
  | _ => False
  end.
Proof. vm_compute. repeat split; try reflexivity. intros H; discriminate H. Qed.

Definition ex_toks : list token := Eval vm_compute in match lex w_nil with Some l => l | None => [] end.

Example C01_inc_none_example : exists p, parse ex_toks = Done p /\ parse_via_inc ex_toks = Done p.
Proof. vm_compute. eexists. split; reflexivity. Qed.

(* ------------------------------------------------------------------------------------------ *)
(* The tree layer holds for blank edits (Proofs/IncPositive*.v).
   `clean_textb t`: the scratch tree of t carries no parse error and no comment token stands directly
   before a comma; `blank_histb t h`: every change of h addresses the current text and lexer::update
   answers it with an EMPTY TokenChange (no token deleted, none inserted).  Both are boolean functions
   of the old text and the changes. *)
From Coq Require Import String.
From Spl Require Import Model.Errors Proofs.IncPositiveList Proofs.IncPositiveProg Proofs.IncPositive Judge.Dump Judge.DumpAst.

(* parser::update under an empty TokenChange at any position w: old may be the scratch tree itself or
   any tree that differs from it by build/semantic messages only (remove_messages = strip_program) *)
Theorem C01_holds_for_empty_token_change : forall old toks w p,
  NCC toks -> parse toks = Done p -> tree_errors p = [] -> strip_program old = p ->
  parse_update old toks w w 0 = Done p.
Proof. exact inc_empty_change. Qed.
Print Assumptions C01_holds_for_empty_token_change.

(* after ANY history of blank edits of a clean text the incrementally updated document - text,
   tokens and TREE - is the freshly analysed one: C01_full_statement restricted to this class *)
Theorem C01_holds_for_blank_edits : forall t h,
  clean_textb t = true -> blank_histb t h = true ->
  exists doc0 doc',
    pnew t = Done doc0 /\ valid_hist t h /\ phist doc0 h = Done doc' /\ pnew (final_text t h) = Done doc'.
Proof. exact blank_edits_fresh. Qed.
Print Assumptions C01_holds_for_blank_edits.

(* one step, with the invariant it preserves *)
Theorem C01_blank_step : forall doc c,
  CleanDoc doc -> blank_change doc c ->
  exists doc', pstep doc (c_a c) (c_d c) (c_b c) (c_ins c) = Done doc' /\
               pnew (c_a c ++ c_ins c ++ c_b c) = Done doc' /\ CleanDoc doc' /\ p_tree doc' = p_tree doc.
Proof. exact blank_step. Qed.
Print Assumptions C01_blank_step.

(* table::build and table::analyze only append build/semantic messages: the analysed tree of a freshly
   opened document is its parse tree up to remove_messages *)
From Spl Require Import Proofs.IncPositiveDoc.
Theorem C01_analysis_appends_messages_only : forall t d0,
  new_doc t = Done d0 ->
  exists p, pnew t = Done {| p_text := t; p_toks := d_toks d0; p_tree := p |} /\ d_text d0 = t /\ strip_program (d_ast d0) = p.
Proof. exact new_doc_strip. Qed.
Print Assumptions C01_analysis_appends_messages_only.

(* C01 on whole documents (AnalyzedSource::new / ::update with table and every diagnostic), for any
   history of notifications made of blank edits of a clean text *)
Theorem C01_holds_for_blank_edits_document : forall t h d0,
  clean_textb t = true -> blank_histb t (concat h) = true -> new_doc t = Done d0 ->
  exists d', update_hist d0 h = Done d' /\ new_doc (final_text t (concat h)) = Done d'.
Proof. exact blank_notifications_fresh. Qed.
Print Assumptions C01_holds_for_blank_edits_document.

(* white space for white space, clear of every token: a textual class of blank edits *)
From Spl Require Import Proofs.IncPositiveGap.
Theorem C01_gap_edit_is_blank : forall t c, gap_changeb t c = true -> blank_changeb t c = true.
Proof. exact gap_changeb_blank. Qed.
Print Assumptions C01_gap_edit_is_blank.

Theorem C01_holds_for_white_space_edits : forall t h,
  clean_textb t = true -> gap_histb t h = true ->
  exists doc0 doc',
    pnew t = Done doc0 /\ valid_hist t h /\ phist doc0 h = Done doc' /\ pnew (final_text t h) = Done doc'.
Proof. exact gap_edits_fresh. Qed.
Print Assumptions C01_holds_for_white_space_edits.

Theorem C01_holds_for_white_space_edits_document : forall t h d0,
  clean_textb t = true -> gap_histb t (concat h) = true -> new_doc t = Done d0 ->
  exists d', update_hist d0 h = Done d' /\ new_doc (final_text t (concat h)) = Done d'.
Proof. exact gap_notifications_fresh. Qed.
Print Assumptions C01_holds_for_white_space_edits_document.

Definition edit (t : string) (at_ del : nat) (ins : string) : text * tchange :=
  let txt := str t in
  (txt, {| c_a := firstn at_ txt; c_d := firstn del (skipn at_ txt); c_b := skipn (at_ + del) txt; c_ins := str ins |}).

(* the updated tree of one step differs from the scratch tree of the new tokens *)
Definition diverges (tc : text * tchange) : bool :=
  let '(t, c) := tc in
  match pnew t with
  | Done d0 =>
      match pstep d0 (c_a c) (c_d c) (c_b c) (c_ins c) with
      | Done d1 => negb (nlist_eqb (enc_outcome (parse (p_toks d1))) (enc_outcome (Done (p_tree d1))))
      | _ => true
      end
  | _ => false
  end.

(* non-vacuity: `proc m(){if(c) g(x,2);}`, two blanks typed after `)`, then a line break appended *)
Example C01_blank_edits_example :
  let t := str "proc m(){if(c) g(x,2);}" in
  let c1 := snd (edit "proc m(){if(c) g(x,2);}" 14 0 "  ") in
  let c2 := snd (edit "proc m(){if(c)   g(x,2);}" 25 0 (String (Ascii.ascii_of_nat 10) EmptyString)) in
  clean_textb t = true /\ blank_histb t [c1; c2] = true /\ gap_histb t [c1; c2] = true /\ diverges (t, c1) = false.
Proof. vm_compute. repeat split. Qed.

(* ... on documents: `proc main(){x:=1;}` carries a semantic diagnostic (the analysed tree is not the
   parse tree); a blank typed after `;`, then, in a second notification, a line break appended *)
Example C01_blank_edits_document_example :
  let t := str "proc main(){x:=1;}" in
  let c1 := snd (edit "proc main(){x:=1;}" 17 0 " ") in
  let c2 := snd (edit "proc main(){x:=1; }" 19 0 (String (Ascii.ascii_of_nat 10) EmptyString)) in
  clean_textb t = true /\ blank_histb t (concat [[c1]; [c2]]) = true /\ gap_histb t (concat [[c1]; [c2]]) = true /\
  match new_doc t with
  | Done d0 =>
      strip_program (d_ast d0) <> d_ast d0 /\
      match update_hist d0 [[c1]; [c2]] with
      | Done d2 => new_doc (final_text t (concat [[c1]; [c2]])) = Done d2
      | _ => False
      end
  | _ => False
  end.
Proof. vm_compute. repeat split. intros H. discriminate H. Qed.

(* the hypotheses are necessary.  (1) a parse error in the old tree: `proc m(){a  :=1+;}`, a blank typed
   before `:=` - the change is empty, but the reused expression `1+` has lost its message *)
Example C01_blank_needs_no_parse_error :
  let tc := edit "proc m(){a  :=1+;}" 11 0 " " in
  blank_changeb (fst tc) (snd tc) = true /\ clean_textb (fst tc) = false /\ diverges tc = true.
Proof. vm_compute. repeat split. Qed.

(* (2) a comment before a comma of a parameter list: a blank typed before `{` - empty change, no parse
   error, but the re-wrapped old parameters are misaligned *)
Example C01_blank_needs_no_comment_before_comma :
  let tc := edit ("proc f(a:int//" ++ String (Ascii.ascii_of_nat 10) ",b:int,d:int) {}") 28 0 " " in
  blank_changeb (fst tc) (snd tc) = true /\ clean_textb (fst tc) = false /\ diverges tc = true.
Proof. vm_compute. repeat split. Qed.

(* (3) an empty TokenChange: `proc m(){if(c) g(x,2);}` is clean, a blank typed directly after `x` changes
   no token kind, but `x` is re-lexed (window 11..12, one token) and `expect` retries the statement
   from the position of the Affected argument; the same happens when x is renamed to y in place *)
Example C01_blank_needs_empty_change :
  let tc := edit "proc m(){if(c) g(x,2);}" 18 0 " " in
  let tr := edit "proc m(){if(c) g(x,2);}" 17 1 "y" in
  clean_textb (fst tc) = true /\ blank_changeb (fst tc) (snd tc) = false /\ diverges tc = true /\ diverges tr = true.
Proof. vm_compute. repeat split. Qed.
