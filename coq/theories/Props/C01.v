(* C01 - incremental re-analysis equals analysis from scratch.  Statements only.

   AnalyzedSource::update works in layers (lib.rs): text (replace_range), tokens (lexer::update),
   tree (parser::update with the window lexer::update reported), then table and build/semantic
   diagnostics, which are recomputed from the tree.  Model/Update.v is the part up to the tree:
   `pnew t` = AnalyzedSource::new t up to the tree, `pstep doc a d b ins` = one change replacing d
   by ins in the text a ++ d ++ b, `phist` = a history of changes.

   What is proved: along EVERY history the text and the token stream (kinds, values, byte ranges,
   lexical errors) are those of a fresh analysis of the final text, and the lexer never fails
   (C01_text_tokens); if the tree of the final document is the scratch tree, the whole document is
   the freshly analysed one (C01_partial).  The remaining hypothesis - the incremental parser agrees
   with a parse from scratch - is FALSE of the code (C01_tree_refuted): known finding C01-incparse.
   The check therefore relies on the correspondence for the tree layer: Model/ParserInc.v
   transcribes the pinned algorithm and predicts every divergence of the real parser::update. *)
From Spl Require Import Model.Update Proofs.UpdateProofs.

Definition C01_full_statement : Prop :=
  forall t h doc0 doc',
    pnew t = Done doc0 -> valid_hist t h -> phist doc0 h = Done doc' ->
    pnew (final_text t h) = Done doc'.

Theorem C01_text_tokens : forall t h doc0 doc',
  pnew t = Done doc0 -> valid_hist t h -> phist doc0 h = Done doc' ->
  p_text doc' = final_text t h /\ lex (final_text t h) = Some (p_toks doc').
Proof. exact hist_from_new. Qed.
Print Assumptions C01_text_tokens.

(* a step can only fail inside the incremental parser: lexer::update always succeeds and returns
   the fresh token stream *)
Theorem C01_lexer_total : forall doc a d b ins,
  p_text doc = a ++ d ++ b -> lex (p_text doc) = Some (p_toks doc) ->
  exists toks ws we n,
    lex_update (a ++ ins ++ b) (p_toks doc) (blen a) (blen a + blen d) ins = UDone toks ws we n /\
    lex (a ++ ins ++ b) = Some toks.
Proof. exact pstep_lexer_total. Qed.
Print Assumptions C01_lexer_total.

Theorem C01_partial : forall t h doc0 doc',
  pnew t = Done doc0 -> valid_hist t h -> phist doc0 h = Done doc' ->
  parse (p_toks doc') = Done (p_tree doc') ->
  pnew (final_text t h) = Done doc'.
Proof. exact hist_partial. Qed.
Print Assumptions C01_partial.

(* inserting `;` between `proc` and the name in `proc m(){a:=1;}`: the incrementally updated tree
   is not the tree of a parse from scratch *)
Theorem C01_tree_refuted :
  exists doc0 doc',
    pnew (w_a ++ [] ++ w_b) = Done doc0 /\
    pstep doc0 w_a [] w_b w_ins = Done doc' /\
    parse (p_toks doc') <> Done (p_tree doc').
Proof. exact tree_refuted. Qed.
Print Assumptions C01_tree_refuted.

Theorem C01_full_statement_refuted : ~ C01_full_statement.
Proof. exact full_statement_refuted. Qed.
Print Assumptions C01_full_statement_refuted.

(* non-vacuity: a two-step history on a real program (insert a statement, then delete it again) on
   which the incremental parser does agree *)
Example C01_example :
  let t := w_a ++ w_b in                                   (* "proc m(){a:=1;}" *)
  let a1 := w_a ++ [109; 40; 41; 123] in                   (* "proc m(){" *)
  let b1 := [97; 58; 61; 49; 59; 125] in                   (* "a:=1;}" *)
  match pnew t with
  | Done d0 =>
      match phist d0 [ {| c_a := a1; c_d := []; c_b := b1; c_ins := [59] |};
                       {| c_a := a1; c_d := [59]; c_b := b1; c_ins := [] |} ] with
      | Done d2 => p_text d2 = t /\ parse (p_toks d2) = Done (p_tree d2)
      | _ => False
      end
  | _ => False
  end.
Proof. vm_compute. split; reflexivity. Qed.
