(* C12 - go-to declaration / definition / type definition / implementation hit the right name.
   Statements only; the proofs are in Proofs/GotoProofs.v.

   [goto_declaration d line col] etc. (Model/Goto.v) transcribe the four handlers of
   lsp4spl/src/features/goto.rs on an analysed document d (text, tokens, tree, table): ROk None =
   `null`, ROk (Some range) = a Location with that range, RFail = the Rust code panics.

   PROVED, for ALL documents d - any record of text / tokens / tree / table, in particular every
   output of AnalyzedSource::new:  C12_robust, C12_no_identifier_no_location,
   C12_predefined_no_location, C12_type_definition_none, C12_definition_is_declaration,
   C12_answer_is_a_token, C12_implementation_refines_declaration.
   STATED AND REFUTED ON THE MODEL: C12_full_statement, the property text read formally (every
   identifier occurrence of a diagnostic-free text, at every position inside it, yields the name of
   the declaration it is bound to by its syntactic role).  The two refutations are the witnesses of
   the known findings C12-proc-name-shadowed-by-own-local and C12-type-use-shadowed-by-local; outside
   these classes the statement is validated by the check (correspondence + oracle), not proved. *)
From Spl Require Import Model.Goto Model.Refs Proofs.GotoProofs.
Import ListNotations.
Local Open Scope N_scope.

(* 1. never an error: on a document that satisfies the decidable well-formedness predicate
      Refs.nav_wf_b (ranges of declarations, table entries and identifiers lie inside the token
      vector) no handler panics, whatever the position *)
Theorem C12_robust : forall d line col,
  nav_wf_b d = true ->
  (exists o, goto_declaration d line col = ROk o) /\ (exists o, goto_definition d line col = ROk o)
  /\ (exists o, goto_type_definition d line col = ROk o) /\ (exists o, goto_implementation d line col = ROk o).
Proof. exact goto_robust. Qed.
Print Assumptions C12_robust.

(* 2. non-identifiers and white space: no identifier token under the cursor (or no enclosing named
      declaration with a table entry) => no location from any of the four requests *)
Theorem C12_no_identifier_no_location : forall d line col cur,
  doc_cursor d line col = ROk cur -> cursor_ident cur = None \/ c_ctx cur = None ->
  goto_declaration d line col = ROk None /\ goto_definition d line col = ROk None
  /\ goto_type_definition d line col = ROk None /\ goto_implementation d line col = ROk None.
Proof. exact no_identifier_no_location. Qed.
Print Assumptions C12_no_identifier_no_location.

(* 3. predefined entities: a name that resolves (in the context: local table of the enclosing
      procedure, then the global table) to an entry named like a predefined entity yields no
      location from declaration / definition / implementation *)
Theorem C12_predefined_no_location : forall d name ctx e,
  resolve d ctx name = Some e -> is_default e = true ->
  declaration_at d name ctx = ROk None /\ implementation_at d name ctx = ROk None.
Proof. exact predefined_no_location. Qed.
Print Assumptions C12_predefined_no_location.

(* 4. typeDefinition: no location for the type `int`, for procedures, and for variables and
      parameters of primitive or unknown type or of an array type whose creator is not a type of
      the table (an anonymous array type) *)
Theorem C12_type_definition_none : forall d name ctx e,
  resolve d ctx name = Some e -> no_type_target d name e -> type_definition_at d name ctx = ROk None.
Proof. exact type_definition_none. Qed.
Print Assumptions C12_type_definition_none.

Theorem C12_definition_is_declaration : forall d line col,
  goto_definition d line col = goto_declaration d line col.
Proof. reflexivity. Qed.
Print Assumptions C12_definition_is_declaration.

(* 5. every location returned is the position range of a token of the document (or the empty
      range at the end of one, for a name with an empty token range) *)
Theorem C12_answer_is_a_token : forall d line col x,
  (goto_declaration d line col = ROk (Some x) -> loc_of_token d x)
  /\ (goto_definition d line col = ROk (Some x) -> loc_of_token d x)
  /\ (goto_type_definition d line col = ROk (Some x) -> loc_of_token d x)
  /\ (goto_implementation d line col = ROk (Some x) -> loc_of_token d x).
Proof. exact answer_is_a_token. Qed.
Print Assumptions C12_answer_is_a_token.

(* 6. go-to-implementation "does so for procedures": whenever it answers, go-to-declaration gives
      the same answer *)
Theorem C12_implementation_refines_declaration : forall d line col x,
  goto_implementation d line col = ROk (Some x) -> goto_declaration d line col = ROk (Some x).
Proof. exact implementation_refines_declaration. Qed.
Print Assumptions C12_implementation_refines_declaration.

(* 7. the full functional statement.  [occurrences], [binding], [spec_*] (Proofs/GotoProofs.v) are
      computed from the TREE alone; [clean_doc t d]: d is the analysis of the text t and has no
      diagnostics; [cursor_inside d o l c]: (l, c) addresses a byte of o's identifier token. *)
Definition C12_full_statement : Prop := full_statement.
Example C12_full_statement_unfold :
  C12_full_statement =
  (forall t d o l c,
     clean_doc t d -> In o (occurrences (d_ast d)) -> cursor_inside d o l c ->
     goto_declaration d l c = ROk (spec_declaration d o)
     /\ goto_definition d l c = ROk (spec_declaration d o)
     /\ goto_type_definition d l c = ROk (spec_type_definition d o)
     /\ goto_implementation d l c = ROk (spec_implementation d o)).
Proof. reflexivity. Qed.

(* refuted on the model: `proc f(f: int) { f := 1; } proc main() { f(2); }`, cursor on the `f`
   after `proc` - the handlers answer with the parameter *)
Theorem C12_full_statement_refuted : ~ C12_full_statement.
Proof. exact full_statement_refuted. Qed.
Print Assumptions C12_full_statement_refuted.

(* and by `type t = int; proc main() { var t: t; t := 1; }`, cursor on the type identifier `t` *)
Theorem C12_full_statement_refuted_by_type_name : ~ C12_full_statement.
Proof. exact full_statement_refuted_type_name. Qed.
Print Assumptions C12_full_statement_refuted_by_type_name.

(* ---- non-vacuity ---- *)

(* the two witnesses are diagnostic-free programs and satisfy the hypothesis of C12_robust *)
Example C12_witnesses_clean :
  is_clean witness_own_name = true /\ is_clean witness_type_name = true
  /\ nav_wf_b (doc_of witness_own_name) = true /\ nav_wf_b (doc_of witness_type_name) = true.
Proof. vm_compute. repeat split. Qed.

(* what the model answers on the first witness: declaration on the header's `f` (0,5) is the
   parameter at (0,7)-(0,8), the specification says (0,5)-(0,6) *)
Example C12_witness_own_name_answers :
  goto_declaration (doc_of witness_own_name) 0 5 = ROk (Some ((0, 7), (0, 8)))
  /\ option_map (spec_declaration (doc_of witness_own_name)) (nth_error (occurrences (d_ast (doc_of witness_own_name))) 0)
     = Some (Some ((0, 5), (0, 6)))
  /\ goto_implementation (doc_of witness_own_name) 0 5 = ROk None.
Proof. vm_compute. repeat split. Qed.

(* a program with type aliases, an anonymous array, reference parameters, index / negated /
   parenthesised expressions, recursion, a predefined procedure, a comment, LF and CRLF: the
   analysis is diagnostic-free and well-formed, there are 30 identifier occurrences, and at the
   first and the last column of each the three handlers answer exactly what the specification
   says (instances of C12_full_statement and of C12_robust's hypothesis) *)
Example C12_sample_agrees :
  is_clean sample_ok = true /\ nav_wf_b (doc_of sample_ok) = true
  /\ length (occurrences (d_ast (doc_of sample_ok))) = 30%nat
  /\ forallb (agrees_at (doc_of sample_ok)) (occurrences (d_ast (doc_of sample_ok))) = true.
Proof. vm_compute. repeat split. Qed.

(* instances of theorems 2-4 on that program: `:=` and white space give nothing; `printi` and
   `int` give nothing; `k` (anonymous array) has no type definition, `a` (type w = v) has: the
   declaration of v *)
Example C12_sample_answers :
  let d := doc_of sample_ok in
  goto_declaration d 1 57 = ROk None /\ goto_declaration d 1 26 = ROk None
  /\ goto_declaration d 1 80 = ROk None /\ goto_type_definition d 1 21 = ROk None
  /\ goto_type_definition d 1 61 = ROk None
  /\ goto_type_definition d 1 52 = ROk (Some ((0, 5), (0, 6)))
  /\ goto_implementation d 1 69 = ROk (Some ((1, 5), (1, 6))).
Proof. vm_compute. repeat split. Qed.
