(* C12 - go-to declaration / definition / type definition / implementation hit the right name.
   Statements only; the proofs are in Proofs/GotoProofs.v.

   [goto_declaration d line col] etc. (Model/Goto.v) transcribe the four handlers of
   lsp4spl/src/features/goto.rs on an analysed document d (text, tokens, tree, table): ROk None =
   `null`, ROk (Some range) = a Location with that range, RFail = the Rust code panics.

   The model follows /repo b909979: inside a procedure a name is looked up with
   [lookup_for table locals gp] where gp = [is_global_position cursor] (Model/Cursor.v: the previous
   non-comment token is `proc`, `type`, `:` or `of`) - globally in a global position, in the
   procedure's local table first otherwise.  The `_at` functions take gp as their last argument.

   PROVED, for ALL documents d - any record of text / tokens / tree / table, in particular every
   output of AnalyzedSource::new:  C12_robust, C12_no_identifier_no_location,
   C12_predefined_no_location, C12_type_definition_none, C12_definition_is_declaration,
   C12_answer_is_a_token, C12_implementation_refines_declaration, and (new with b909979)
   C12_global_position_ignores_locals, C12_global_position_as_type_context, C12_local_wins.
   PROVED for every VALID program in every layout (the full functional statement):
     C12_valid        for every abstract program p of the grammar (Spec/Grammar.v) whose mandated tree is
                      well-typed (Spec/Typing.v), every text t that lexes to p's tokens, every identifier
                      occurrence o of the tree (Spec/Nav.v [occurrences]: the seven syntactic roles) and every
                      position inside o's token: declaration and definition answer the name token of the
                      declaration o is bound to under SPL scoping (nothing for predefined entities),
                      typeDefinition the type declaration itself / for a parameter or variable the declaration
                      that created its array type (alias chains followed; nothing for int and for array types
                      written in place), implementation the procedure declaration.  This is
                      C12_full_statement with "clean_doc t d" replaced by "t is a layout of a well-typed
                      abstract program" (the formulation of C03_no_false_positive, C14_hover_valid, C17_valid).
                      Proofs/GotoValidModel.v, GotoValidNav.v, GotoValidHandlers.v, GotoValidMain.v.
     C12_valid_text   the same for every rendering (Proofs/RenderProofs.v) of such a program
     C12_valid_ex     non-vacuity: the theorem applied to the valid program of Props/C14.v
   PROVED (C12_full): C12_full_statement (Spec/Nav.v) in its formulation over "documents without diagnostics"
   ([clean_doc t d]: AnalyzedSource::new succeeds, errors() is empty, no token carries a lexical error).  On top
   of C12_valid this is the COMPLETENESS of the front end (Proofs/CompleteBase.v, CompleteExpr.v, CompleteStmt.v,
   CompleteProg.v: a parse without diagnostic is the parse of a derivation of the grammar; Proofs/CompleteSem.v:
   build/analyze attach nothing only to well-typed trees; Proofs/CompleteFront.v [front_end_complete]: no
   diagnostic => the text is a layout of a well-typed abstract program).  Before b909979 the statement was
   refuted on the model by the witnesses of the findings C12-proc-name-shadowed-by-own-local and
   C12-type-use-shadowed-by-local; on these witnesses it HOLDS now (C12_repaired_witnesses_agree); it is also
   validated by the check: correspondence of the model with the server, the derivation-based oracle, and the
   judge deciding the instances of the Coq statement itself on generated programs (command 37). *)
From Spl Require Import Props.C14.
From Spl Require Import Proofs.GrammarProofs Spec.Typing Proofs.TypingProofs Proofs.RenderProofs Proofs.PipelineText.
From Spl Require Import Proofs.HoverValid Proofs.GotoValidMain.
From Spl Require Import Model.Goto Model.Refs Spec.Nav Proofs.GotoProofs.
Import ListNotations.
Local Open Scope N_scope.

(* 1. never an error: on a document that satisfies the decidable well-formedness predicate
      Refs.nav_wf_b (ranges of declarations, table entries and identifiers lie inside the token
      vector) no handler panics, whatever the position *)
Theorem C12_robust : forall d line col,
  nav_wf_b d = true ->
  (exists o, goto_declaration d line col = ROk o) /\ (exists o, goto_definition d line col = ROk o)
  /\ (exists o, goto_type_definition d line col = ROk o) /\ (exists o, goto_implementation d line col = ROk o).
Proof. exact goto_robust. Qed.
Print Assumptions C12_robust.

(* 2. non-identifiers and white space: no identifier token under the cursor (or no enclosing named
      declaration with a table entry) => no location from any of the four requests *)
Theorem C12_no_identifier_no_location : forall d line col cur,
  doc_cursor d line col = ROk cur -> cursor_ident cur = None \/ c_ctx cur = None ->
  goto_declaration d line col = ROk None /\ goto_definition d line col = ROk None
  /\ goto_type_definition d line col = ROk None /\ goto_implementation d line col = ROk None.
Proof. exact no_identifier_no_location. Qed.
Print Assumptions C12_no_identifier_no_location.

(* 3. predefined entities: a name that resolves ([resolve], Model/Refs.v: in a type context in the
      global table; in a procedure context in the local table first unless gp, then in the global
      table) to an entry named like a predefined entity yields no location from declaration /
      definition / implementation *)
Theorem C12_predefined_no_location : forall d name ctx gp e,
  resolve name ctx (d_table d) gp = Some e -> is_default e = true ->
  declaration_at d name ctx gp = ROk None /\ implementation_at d name ctx gp = ROk None.
Proof. exact predefined_no_location. Qed.
Print Assumptions C12_predefined_no_location.

(* 4. typeDefinition: no location for the type `int`, for procedures, and for variables and
      parameters of primitive or unknown type or of an array type whose creator is not a type of
      the table (an anonymous array type) *)
Theorem C12_type_definition_none : forall d name ctx gp e,
  resolve name ctx (d_table d) gp = Some e -> no_type_target d name e -> type_definition_at d name ctx gp = ROk None.
Proof. exact type_definition_none. Qed.
Print Assumptions C12_type_definition_none.

Theorem C12_definition_is_declaration : forall d line col,
  goto_definition d line col = goto_declaration d line col.
Proof. reflexivity. Qed.
Print Assumptions C12_definition_is_declaration.

(* 5. every location returned is the position range of a token of the document (or the empty
      range at the end of one, for a name with an empty token range) *)
Theorem C12_answer_is_a_token : forall d line col x,
  (goto_declaration d line col = ROk (Some x) -> loc_of_token d x)
  /\ (goto_definition d line col = ROk (Some x) -> loc_of_token d x)
  /\ (goto_type_definition d line col = ROk (Some x) -> loc_of_token d x)
  /\ (goto_implementation d line col = ROk (Some x) -> loc_of_token d x).
Proof. exact answer_is_a_token. Qed.
Print Assumptions C12_answer_is_a_token.

(* 6. go-to-implementation "does so for procedures": whenever it answers, go-to-declaration gives
      the same answer *)
Theorem C12_implementation_refines_declaration : forall d line col x,
  goto_implementation d line col = ROk (Some x) -> goto_declaration d line col = ROk (Some x).
Proof. exact implementation_refines_declaration. Qed.
Print Assumptions C12_implementation_refines_declaration.

(* 7. the full functional statement.  [occurrences], [binding], [spec_*] (Spec/Nav.v) are
      computed from the TREE alone; [clean_doc t d]: d is the analysis of the text t and has no
      diagnostics; [cursor_inside d o l c]: (l, c) addresses a byte of o's identifier token. *)
Definition C12_full_statement : Prop := full_statement.
Example C12_full_statement_unfold :
  C12_full_statement =
  (forall t d o l c,
     clean_doc t d -> In o (occurrences (d_ast d)) -> cursor_inside d o l c ->
     goto_declaration d l c = ROk (spec_declaration d o)
     /\ goto_definition d l c = ROk (spec_declaration d o)
     /\ goto_type_definition d l c = ROk (spec_type_definition d o)
     /\ goto_implementation d l c = ROk (spec_implementation d o)).
Proof. reflexivity. Qed.

(* ---- resolution by syntactic position (/repo b909979) ---- *)

(* 8. in a global position - the name of a global declaration, an identifier of a type expression -
      the parameters and variables of the enclosing procedure play no role: the answers are the same
      whatever the procedure context *)
Theorem C12_global_position_ignores_locals : forall d name p p',
  declaration_at d name (GProcE p) true = declaration_at d name (GProcE p') true
  /\ type_definition_at d name (GProcE p) true = type_definition_at d name (GProcE p') true
  /\ implementation_at d name (GProcE p) true = implementation_at d name (GProcE p') true.
Proof. exact global_position_ignores_locals. Qed.
Print Assumptions C12_global_position_ignores_locals.

(* 9. ... and, for every name but `int`, they are the answers given inside a type declaration *)
Theorem C12_global_position_as_type_context : forall d name p t,
  text_eqb name s_int = false ->
  declaration_at d name (GProcE p) true = declaration_at d name (GTypeE t) true
  /\ type_definition_at d name (GProcE p) true = type_definition_at d name (GTypeE t) true.
Proof. exact global_position_as_type_context. Qed.
Print Assumptions C12_global_position_as_type_context.

(* 10. outside a global position a parameter or variable of the enclosing procedure wins, whatever
       else carries its name: declaration answers with the local's own name token, implementation
       with nothing *)
Theorem C12_local_wins : forall d name p le,
  lookup (pe_local p) name = Some le ->
  declaration_at d name (GProcE p) false
  = (do toks <- entry_tokens d p (entry_of_l le); answer d toks (entry_of_l le))
  /\ implementation_at d name (GProcE p) false = ROk None.
Proof. exact local_wins. Qed.
Print Assumptions C12_local_wins.

(* ---- non-vacuity, instances of the full statement ---- *)

(* the witnesses of the two repaired findings and the collision program are diagnostic-free and
   satisfy the hypothesis of C12_robust *)
Example C12_witnesses_clean :
  is_clean witness_own_name = true /\ is_clean witness_type_name = true /\ is_clean witness_collisions = true
  /\ nav_wf_b (doc_of witness_own_name) = true /\ nav_wf_b (doc_of witness_type_name) = true
  /\ nav_wf_b (doc_of witness_collisions) = true.
Proof. vm_compute. repeat split. Qed.

(* what the model answers on the first witness `proc f(f: int) { f := 1; } proc main() { f(2); }`:
   declaration and implementation on the header's `f` (0,5) are the header's `f` (before b909979: the
   parameter at (0,7)-(0,8) and null), as the specification says; on the parameter (0,7) and its use
   (0,17) the parameter; on the call (0,41) the procedure.  On the second witness
   `type t = int; proc main() { var t: t; t := 1; }` the type identifier (0,35) goes to the type
   (before: to the variable (0,32)-(0,33)), the variable's use (0,38) to the variable *)
Example C12_repaired_witness_answers :
  goto_declaration (doc_of witness_own_name) 0 5 = ROk (Some ((0, 5), (0, 6)))
  /\ option_map (spec_declaration (doc_of witness_own_name)) (nth_error (occurrences (d_ast (doc_of witness_own_name))) 0)
     = Some (Some ((0, 5), (0, 6)))
  /\ goto_implementation (doc_of witness_own_name) 0 5 = ROk (Some ((0, 5), (0, 6)))
  /\ goto_declaration (doc_of witness_own_name) 0 7 = ROk (Some ((0, 7), (0, 8)))
  /\ goto_declaration (doc_of witness_own_name) 0 17 = ROk (Some ((0, 7), (0, 8)))
  /\ goto_declaration (doc_of witness_own_name) 0 41 = ROk (Some ((0, 5), (0, 6)))
  /\ goto_declaration (doc_of witness_type_name) 0 35 = ROk (Some ((0, 5), (0, 6)))
  /\ goto_type_definition (doc_of witness_type_name) 0 35 = ROk (Some ((0, 5), (0, 6)))
  /\ goto_declaration (doc_of witness_type_name) 0 38 = ROk (Some ((0, 32), (0, 33))).
Proof. vm_compute. repeat split. Qed.

(* the instances of C12_full_statement on the two former counterexamples and on the collision program
   (a parameter named like its procedure and of array type, a parameter named like a type that a later
   parameter uses, variables named `int` and `printi`, a parameter named like another procedure, a
   type used only behind `of`, a forward call): at EVERY occurrence (6, 6, 35), first and last column,
   the handlers answer what the specification says *)
Example C12_repaired_witnesses_agree :
  let ok t := forallb (agrees_at (doc_of t)) (occurrences (d_ast (doc_of t))) in
  ok witness_own_name = true /\ ok witness_type_name = true /\ ok witness_collisions = true
  /\ length (occurrences (d_ast (doc_of witness_own_name))) = 6%nat
  /\ length (occurrences (d_ast (doc_of witness_type_name))) = 6%nat
  /\ length (occurrences (d_ast (doc_of witness_collisions))) = 35%nat.
Proof. vm_compute. repeat split. Qed.

(* instances of theorems 8-10 on the collision program (line 1: `proc f(ref f: t, t: int, ref g: t) {
   var int: int; var printi: u; f[t] := int; printi[0][1] := g[0]; }`): the header's `f` (1,5) and the
   type `t` behind the colons (1,14), (1,32) are global positions; the parameters f (1,11), t (1,17) and
   the uses `f[t]` (1,66), (1,68) are not.  The use of the parameter f goes to the parameter, its
   typeDefinition to `type t`, implementation gives nothing; the call f(...) in g (2,37) goes to the
   procedure; the variable `int` (1,74) to its declaration, the type `int` (1,46) nowhere; the variable
   `printi` (1,79) to its declaration, the call of the predefined printi (2,49) nowhere *)
Example C12_collision_answers :
  let d := doc_of witness_collisions in
  goto_declaration d 1 5 = ROk (Some ((1, 5), (1, 6))) /\ goto_declaration d 1 14 = ROk (Some ((0, 5), (0, 6)))
  /\ goto_declaration d 1 32 = ROk (Some ((0, 5), (0, 6)))
  /\ goto_declaration d 1 11 = ROk (Some ((1, 11), (1, 12))) /\ goto_declaration d 1 17 = ROk (Some ((1, 17), (1, 18)))
  /\ goto_declaration d 1 66 = ROk (Some ((1, 11), (1, 12))) /\ goto_declaration d 1 68 = ROk (Some ((1, 17), (1, 18)))
  /\ goto_type_definition d 1 66 = ROk (Some ((0, 5), (0, 6))) /\ goto_implementation d 1 66 = ROk None
  /\ goto_implementation d 2 37 = ROk (Some ((1, 5), (1, 6)))
  /\ goto_declaration d 1 74 = ROk (Some ((1, 41), (1, 44))) /\ goto_declaration d 1 46 = ROk None
  /\ goto_declaration d 1 79 = ROk (Some ((1, 55), (1, 61))) /\ goto_declaration d 2 49 = ROk None.
Proof. vm_compute. repeat split. Qed.

(* a program with type aliases, an anonymous array, reference parameters, index / negated /
   parenthesised expressions, recursion, a predefined procedure, a comment, LF and CRLF: the
   analysis is diagnostic-free and well-formed, there are 30 identifier occurrences, and at the
   first and the last column of each the three handlers answer exactly what the specification
   says (instances of C12_full_statement and of C12_robust's hypothesis) *)
Example C12_sample_agrees :
  is_clean sample_ok = true /\ nav_wf_b (doc_of sample_ok) = true
  /\ length (occurrences (d_ast (doc_of sample_ok))) = 30%nat
  /\ forallb (agrees_at (doc_of sample_ok)) (occurrences (d_ast (doc_of sample_ok))) = true.
Proof. vm_compute. repeat split. Qed.

(* instances of theorems 2-4 on that program: `:=` and white space give nothing; `printi` and
   `int` give nothing; `k` (anonymous array) has no type definition, `a` (type w = v) has: the
   declaration of v *)
Example C12_sample_answers :
  let d := doc_of sample_ok in
  goto_declaration d 1 57 = ROk None /\ goto_declaration d 1 26 = ROk None
  /\ goto_declaration d 1 80 = ROk None /\ goto_type_definition d 1 21 = ROk None
  /\ goto_type_definition d 1 61 = ROk None
  /\ goto_type_definition d 1 52 = ROk (Some ((0, 5), (0, 6)))
  /\ goto_implementation d 1 69 = ROk (Some ((1, 5), (1, 6))).
Proof. vm_compute. repeat split. Qed.

(* ---- the full functional statement on VALID programs ---- *)

(* 11. C12_full_statement with the hypothesis "clean_doc t d" (the analysis reports no diagnostic) replaced
       by "t is a layout of a well-typed abstract program": p ranges over the derivations of the grammar
       (a comment slot in front of every token), G over the tables with [well_typed (expected p) G], t over
       the texts that lex to p's token kinds *)
Theorem C12_valid : forall (p : aprog) (G : gtable) (t : text) (toks : list token) (d : doc),
  prog_ok p = true -> well_typed (expected p) G ->
  lex t = Some toks -> map tk toks = flatten p ++ [Eof] ->
  new_doc_res t = ODone d ->
  forall o l c, In o (occurrences (d_ast d)) -> cursor_inside d o l c ->
    goto_declaration d l c = ROk (spec_declaration d o)
    /\ goto_definition d l c = ROk (spec_declaration d o)
    /\ goto_type_definition d l c = ROk (spec_type_definition d o)
    /\ goto_implementation d l c = ROk (spec_implementation d o).
Proof. exact goto_valid. Qed.
Print Assumptions C12_valid.

(* ... from text: every rendering of a valid abstract program (any white space gaps satisfying gaps_ok,
   comments in any token gap; Proofs/RenderProofs.v, Proofs/PipelineText.v, explained in Props/C04.v)
   is such a layout, and the analysis never fails on it *)
Theorem C12_valid_text : forall (p : aprog) (G : gtable) gaps (t : text),
  prog_ok p = true -> aprog_valid p = true -> gaps_ok (flatten p) gaps -> render_kinds (flatten p) gaps = Some t ->
  well_typed (expected p) G ->
  exists toks d, lex t = Some toks /\ map tk toks = flatten p ++ [Eof] /\ new_doc_res t = ODone d /\
  forall o l c, In o (occurrences (d_ast d)) -> cursor_inside d o l c ->
    goto_declaration d l c = ROk (spec_declaration d o)
    /\ goto_definition d l c = ROk (spec_declaration d o)
    /\ goto_type_definition d l c = ROk (spec_type_definition d o)
    /\ goto_implementation d l c = ROk (spec_implementation d o).
Proof.
  intros p G gaps t Hok Hv Hg Hr Hwt. destruct (text_layout_of p gaps t Hv Hg Hr) as [toks [Hl Hk]].
  exists toks, {| d_text := t; d_toks := toks; d_ast := expected p; d_table := G |}.
  assert (Hd : new_doc_res t = ODone {| d_text := t; d_toks := toks; d_ast := expected p; d_table := G |}).
  { destruct (no_false_positive_tree _ _ (expected_clean p) Hwt) as [Hb [Ha _]].
    unfold new_doc_res. now rewrite Hl, (roundtrip p toks Hok Hk), Hb, Ha. }
  repeat split; try assumption; now apply (goto_valid p G t toks _ Hok Hwt Hl Hk Hd).
Qed.
Print Assumptions C12_valid_text.

(* non-vacuity: the hypotheses of C12_valid hold for the program of Props/C14.v
     type t = int;
     // doc
     proc k(a: t) { var k: t; var t: t; t := a; k := t; }
     proc main() {}
   (a procedure that declares a variable named like itself and a variable named like the type of its
   parameter): the theorem applies to each of its 14 identifier occurrences at every position inside them *)
Example C12_valid_ex :
  match new_doc_res c14_valid_text with
  | ODone d =>
      length (occurrences (d_ast d)) = 14%nat /\
      forall o l c, In o (occurrences (d_ast d)) -> cursor_inside d o l c ->
        goto_declaration d l c = ROk (spec_declaration d o)
        /\ goto_definition d l c = ROk (spec_declaration d o)
        /\ goto_type_definition d l c = ROk (spec_type_definition d o)
        /\ goto_implementation d l c = ROk (spec_implementation d o)
  | _ => False
  end.
Proof.
  destruct C14_ex_layout as [Hok Hl].
  destruct (lex c14_valid_text) as [toks|] eqn:El; [|contradiction].
  destruct (new_doc_res c14_valid_text) as [d|s|] eqn:Ed;
    [|vm_compute in Ed; discriminate Ed|vm_compute in Ed; discriminate Ed].
  split; [|exact (C12_valid c14_p c14_table c14_valid_text toks d Hok C14_ex_well_typed El Hl Ed)].
  assert (Ed' : d = match new_doc_res c14_valid_text with ODone x => x | _ => d end) by now rewrite Ed.
  rewrite Ed'. vm_compute. reflexivity.
Qed.

(* ... and evaluated independently of the theorem: at the first and the last column of every occurrence the
   handlers answer what the specification says; e.g. the name `k` of the procedure (2,5) and the type `t`
   behind `var k:` (2,22) are resolved globally although k declares variables k and t *)
Example C12_valid_eval :
  forallb (agrees_at (doc_of c14_valid_text)) (occurrences (d_ast (doc_of c14_valid_text))) = true
  /\ goto_declaration (doc_of c14_valid_text) 2 5 = ROk (Some ((2, 5), (2, 6)))
  /\ goto_declaration (doc_of c14_valid_text) 2 22 = ROk (Some ((0, 5), (0, 6)))
  /\ goto_declaration (doc_of c14_valid_text) 2 43 = ROk (Some ((2, 19), (2, 20))).
Proof. vm_compute. repeat split. Qed.

(* 12. the full functional statement itself, for every document without diagnostics: by the completeness of
       the front end (Proofs/CompleteFront.v, front_end_complete) such a document is the document of a layout
       of a well-typed abstract program, so C12_valid applies *)
From Spl Require Import Proofs.CompleteFront.
Theorem C12_front_end_complete : forall t d,
  new_doc_res t = ODone d -> doc_errors_res d = ROk [] ->
  forallb (fun tok => match terr tok with [] => true | _ => false end) (d_toks d) = true ->
  exists p G, prog_ok p = true /\ map tk (d_toks d) = flatten p ++ [Eof] /\ well_typed (expected p) G
              /\ d_ast d = expected p /\ d_table d = G.
Proof. exact front_end_complete. Qed.
Print Assumptions C12_front_end_complete.

Theorem C12_full : C12_full_statement.
Proof. exact full_statement_holds. Qed.
Print Assumptions C12_full.
