(* C10 - formatting never loses or duplicates a comment.
   Statements only; proofs in Proofs/FormatProofs.v, model in Model/Format.v.

   The property as stated is FALSE for the pinned formatter (the known findings named C10-gap-...), and the faithful model
   refutes it: C10_refuted.  What is PROVED besides: the two helper functions through which every comment reaches
   the output emit each comment token of the slice they are given exactly once, in order, as Display prints it
   (C10_all_comments_once, C10_leading_comments_once / C10_leading_comments_prefix), and a leaf statement is printed
   as exactly the comments of its own token range followed by its text (C10_leaf_statement_comments).
   STATED, NOT PROVED: C10_no_dup_full_statement (no comment is emitted twice ACROSS constructs: needs the parser's
   range invariants - disjoint, nested token ranges - of C04/C05); the survival of comments in the covered gap kinds
   is validated on the implementation for every gap of every generated program. *)
From Coq Require Import String.
From Spl Require Import Model.Format Model.Lexer Proofs.FormatProofs.
Import ListNotations.
Local Open Scope N_scope.

(* the property text, formally *)
Definition C10_full_statement : Prop := C10_statement.
Example C10_full_statement_unfold :
  C10_full_statement =
  (forall doc ins ts toks out toks',
     syntactically_valid doc -> lex doc = Some toks -> formatted_text doc ins ts = Done out -> lex out = Some toks' ->
     comment_bodies toks' = comment_bodies toks)
  /\ (forall toks, comment_bodies toks = flat_map (fun t => match tk t with Comment s => [trim s] | _ => [] end) toks)
  /\ (forall doc, syntactically_valid doc =
        exists toks p, lex doc = Some toks /\ forallb (fun t => is_nil (terr t)) toks = true /\
                       parse toks = Done p /\ program_clean p = true).
Proof. repeat split; reflexivity. Qed.

(* 1. refuted on the model; the witness is the witness of known finding C10-gap-before-proc-rcurly *)
Theorem C10_refuted : ~ C10_full_statement.
Proof. exact c10_refuted. Qed.
Print Assumptions C10_refuted.

Example C10_refuted_ex :
  c10_witness = str "proc main() {" ++ [10] ++ str "// c" ++ [10] ++ str "}" ++ [10]
  /\ formatted_text c10_witness true 4 = Done (str "proc main() {}" ++ [10])
  /\ match lex c10_witness with Some toks => comment_bodies toks = [str "c"] | None => False end
  /\ match lex (str "proc main() {}" ++ [10]) with Some toks => comment_bodies toks = [] | None => False end.
Proof. vm_compute. repeat split. Qed.

(* 2. the two helpers *)
Theorem C10_all_comments_once : forall body sl,
  add_all_comments body sl = concat (map show_tok (filter is_comment_tok sl)) ++ body.
Proof. exact all_comments_once. Qed.
Print Assumptions C10_all_comments_once.

Theorem C10_leading_comments_once : forall body sl,
  add_leading_comments body sl = concat (map show_tok (leading_comments_of sl)) ++ body.
Proof. exact leading_comments_once. Qed.
Print Assumptions C10_leading_comments_once.

(* the leading run is the maximal prefix of comment tokens of the slice *)
Theorem C10_leading_comments_prefix : forall sl,
  exists rest, sl = leading_comments_of sl ++ rest /\
               match rest with t :: _ => is_comment_tok t = false | [] => True end.
Proof. exact leading_comments_prefix. Qed.
Print Assumptions C10_leading_comments_prefix.

Definition c10_mk (k : kind) : token := {| tk := k; ts := 0; te := 0; terr := [] |}.
Example C10_helpers_ex :
  let sl := map c10_mk [Comment (str " a "); Comment (str "b"); Ident (str "x"); Comment (str " c"); Assign; IntT (IntOk 1); Semic] in
  add_all_comments (str "x := 1;") sl = str "// a" ++ [10] ++ str "// b" ++ [10] ++ str "// c" ++ [10] ++ str "x := 1;"
  /\ add_leading_comments (str "x := 1;") sl = str "// a" ++ [10] ++ str "// b" ++ [10] ++ str "x := 1;"
  /\ map tk (leading_comments_of sl) = [Comment (str " a "); Comment (str "b")].
Proof. vm_compute. repeat split. Qed.

(* 3. leaf statements: every comment of the statement's token range, once and in order, then the statement *)
Theorem C10_leaf_statement_comments : forall f s toks out,
  fmt_stmt f s toks = FOk out ->
  match s with
  | SEmpty inf =>
      exists sl, slice inf toks = Some sl /\ out = concat (map show_tok (filter is_comment_tok sl)) ++ [59; 10]
  | SAssign v e inf =>
      exists sl body, slice inf toks = Some sl /\ fmt_assign_body v e toks = FOk body /\
                      out = concat (map show_tok (filter is_comment_tok sl)) ++ body
  | SCall n a inf =>
      exists sl body, slice inf toks = Some sl /\ fmt_call_body n a toks = FOk body /\
                      out = concat (map show_tok (filter is_comment_tok sl)) ++ body
  | _ => True
  end.
Proof. exact leaf_statement_comments. Qed.
Print Assumptions C10_leaf_statement_comments.

Example C10_leaf_statement_ex :
  formatted_text (str "proc f(){ x // one" ++ [10] ++ str ":= // two" ++ [10] ++ str "1 ; }") true 2 =
  Done (str "proc f() {" ++ [10] ++ str "  // one" ++ [10] ++ str "  // two" ++ [10] ++ str "  x := 1;" ++ [10] ++ str "}" ++ [10]).
Proof. vm_compute. reflexivity. Qed.

(* 4. not proved *)
Definition C10_no_dup_full_statement : Prop := C10_no_dup_statement.
Example C10_no_dup_full_statement_unfold :
  C10_no_dup_full_statement =
  (forall doc ins ts toks out toks' c,
     syntactically_valid doc -> lex doc = Some toks -> formatted_text doc ins ts = Done out -> lex out = Some toks' ->
     (count_occ (list_eq_dec N.eq_dec) (comment_bodies toks') c <= count_occ (list_eq_dec N.eq_dec) (comment_bodies toks) c)%nat).
Proof. reflexivity. Qed.

(* 5. comments in leading positions are kept: for every program whose comments stand only in front of `type`, `proc`,
   `var`, a parameter, or the first token of a statement (predicate lead_only; blocks used as branches excluded), every
   layout, every option setting: the formatted text lexes to the same non-comment tokens and to the SAME comment bodies,
   in order - none lost, none duplicated (Proofs/FormatStructProg.v, by structural induction over the abstract program) *)
From Spl Require Proofs.FormatStructProg Spec.Grammar Proofs.PipelineText.
Theorem C10_lead_comments_kept : forall p doc toks ins ts,
  Grammar.prog_ok p = true -> FormatStructProg.lead_only p = true -> PipelineText.aprog_valid p = true ->
  lex doc = Some toks -> map tk toks = Grammar.flatten p ++ [Eof] ->
  exists txt toks',
    formatted_text doc ins ts = Done txt /\ lex txt = Some toks' /\
    code_kinds toks' = code_kinds toks /\ comment_bodies toks' = comment_bodies toks /\
    Forall (fun t => terr t = []) toks'.
Proof. exact FormatStructProg.document_lead. Qed.
Print Assumptions C10_lead_comments_kept.
