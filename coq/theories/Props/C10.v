(* C10 - formatting never loses or duplicates a comment.
   Statements only; proofs in Proofs/FormatProofs.v, model in Model/Format.v.

   The property as stated is FALSE for the pinned formatter (the known findings named C10-gap-...), and the faithful model
   refutes it: C10_refuted.  What is PROVED besides: the two helper functions through which every comment reaches
   the output emit each comment token of the slice they are given exactly once, in order, as Display prints it
   (C10_all_comments_once, C10_leading_comments_once / C10_leading_comments_prefix), and a leaf statement is printed
   as exactly the comments of its own token range followed by its text (C10_leaf_statement_comments).
   Section 6 gives the EXACT CHARACTERISATION for every layout of every valid abstract program (Spec/Grammar.v), comments
   anywhere: the comments of the formatted document are exactly the comments of [kept p] - the program with the comments
   where the printers put them - in order, each once (C10_comments_exactly_kept); they are an order-preserving sublist of
   the source's comments, so no comment is ever invented, duplicated or moved across another comment
   (C10_no_comment_invented_or_duplicated: this is C10_no_dup_full_statement for these documents); and none is lost IF AND
   ONLY IF every comment stands in a printed slot (C10_all_kept_iff, [all_comments_printed]; it generalises [lead_only]:
   C10_lead_only_all_printed).  C10_gap_kinds_ex lists, for a program with a comment in each of its 64 gaps, the 37 that
   survive and the 27 that are lost.
   STATED ONLY: C10_no_dup_full_statement in the form with the hypothesis `syntactically_valid doc`. *)
From Coq Require Import String.
From Spl Require Import Model.Format Model.Lexer Proofs.FormatProofs.
Import ListNotations.
Local Open Scope N_scope.

(* the property text, formally *)
Definition C10_full_statement : Prop := C10_statement.
Example C10_full_statement_unfold :
  C10_full_statement =
  (forall doc ins ts toks out toks',
     syntactically_valid doc -> lex doc = Some toks -> formatted_text doc ins ts = Done out -> lex out = Some toks' ->
     comment_bodies toks' = comment_bodies toks)
  /\ (forall toks, comment_bodies toks = flat_map (fun t => match tk t with Comment s => [trim s] | _ => [] end) toks)
  /\ (forall doc, syntactically_valid doc =
        exists toks p, lex doc = Some toks /\ forallb (fun t => is_nil (terr t)) toks = true /\
                       parse toks = Done p /\ program_clean p = true).
Proof. repeat split; reflexivity. Qed.

(* 1. refuted on the model; the witness is the witness of known finding C10-gap-before-proc-rcurly *)
Theorem C10_refuted : ~ C10_full_statement.
Proof. exact c10_refuted. Qed.
Print Assumptions C10_refuted.

Example C10_refuted_ex :
  c10_witness = str "proc main() {" ++ [10] ++ str "// c" ++ [10] ++ str "}" ++ [10]
  /\ formatted_text c10_witness true 4 = Done (str "proc main() {}" ++ [10])
  /\ match lex c10_witness with Some toks => comment_bodies toks = [str "c"] | None => False end
  /\ match lex (str "proc main() {}" ++ [10]) with Some toks => comment_bodies toks = [] | None => False end.
Proof. vm_compute. repeat split. Qed.

(* 2. the two helpers *)
Theorem C10_all_comments_once : forall body sl,
  add_all_comments body sl = concat (map show_tok (filter is_comment_tok sl)) ++ body.
Proof. exact all_comments_once. Qed.
Print Assumptions C10_all_comments_once.

Theorem C10_leading_comments_once : forall body sl,
  add_leading_comments body sl = concat (map show_tok (leading_comments_of sl)) ++ body.
Proof. exact leading_comments_once. Qed.
Print Assumptions C10_leading_comments_once.

(* the leading run is the maximal prefix of comment tokens of the slice *)
Theorem C10_leading_comments_prefix : forall sl,
  exists rest, sl = leading_comments_of sl ++ rest /\
               match rest with t :: _ => is_comment_tok t = false | [] => True end.
Proof. exact leading_comments_prefix. Qed.
Print Assumptions C10_leading_comments_prefix.

Definition c10_mk (k : kind) : token := {| tk := k; ts := 0; te := 0; terr := [] |}.
Example C10_helpers_ex :
  let sl := map c10_mk [Comment (str " a "); Comment (str "b"); Ident (str "x"); Comment (str " c"); Assign; IntT (IntOk 1); Semic] in
  add_all_comments (str "x := 1;") sl = str "// a" ++ [10] ++ str "// b" ++ [10] ++ str "// c" ++ [10] ++ str "x := 1;"
  /\ add_leading_comments (str "x := 1;") sl = str "// a" ++ [10] ++ str "// b" ++ [10] ++ str "x := 1;"
  /\ map tk (leading_comments_of sl) = [Comment (str " a "); Comment (str "b")].
Proof. vm_compute. repeat split. Qed.

(* 3. leaf statements: every comment of the statement's token range, once and in order, then the statement *)
Theorem C10_leaf_statement_comments : forall f s toks out,
  fmt_stmt f s toks = FOk out ->
  match s with
  | SEmpty inf =>
      exists sl, slice inf toks = Some sl /\ out = concat (map show_tok (filter is_comment_tok sl)) ++ [59; 10]
  | SAssign v e inf =>
      exists sl body, slice inf toks = Some sl /\ fmt_assign_body v e toks = FOk body /\
                      out = concat (map show_tok (filter is_comment_tok sl)) ++ body
  | SCall n a inf =>
      exists sl body, slice inf toks = Some sl /\ fmt_call_body n a toks = FOk body /\
                      out = concat (map show_tok (filter is_comment_tok sl)) ++ body
  | _ => True
  end.
Proof. exact leaf_statement_comments. Qed.
Print Assumptions C10_leaf_statement_comments.

Example C10_leaf_statement_ex :
  formatted_text (str "proc f(){ x // one" ++ [10] ++ str ":= // two" ++ [10] ++ str "1 ; }") true 2 =
  Done (str "proc f() {" ++ [10] ++ str "  // one" ++ [10] ++ str "  // two" ++ [10] ++ str "  x := 1;" ++ [10] ++ str "}" ++ [10]).
Proof. vm_compute. reflexivity. Qed.

(* 4. not proved *)
Definition C10_no_dup_full_statement : Prop := C10_no_dup_statement.
Example C10_no_dup_full_statement_unfold :
  C10_no_dup_full_statement =
  (forall doc ins ts toks out toks' c,
     syntactically_valid doc -> lex doc = Some toks -> formatted_text doc ins ts = Done out -> lex out = Some toks' ->
     (count_occ (list_eq_dec N.eq_dec) (comment_bodies toks') c <= count_occ (list_eq_dec N.eq_dec) (comment_bodies toks) c)%nat).
Proof. reflexivity. Qed.

(* 5. comments in leading positions are kept: for every program whose comments stand only in front of `type`, `proc`,
   `var`, a parameter, or the first token of a statement (predicate lead_only; blocks used as branches excluded), every
   layout, every option setting: the formatted text lexes to the same non-comment tokens and to the SAME comment bodies,
   in order - none lost, none duplicated (Proofs/FormatStructProg.v, by structural induction over the abstract program) *)
From Spl Require Proofs.FormatStructProg Spec.Grammar Proofs.PipelineText.
Theorem C10_lead_comments_kept : forall p doc toks ins ts,
  Grammar.prog_ok p = true -> FormatStructProg.lead_only p = true -> PipelineText.aprog_valid p = true ->
  lex doc = Some toks -> map tk toks = Grammar.flatten p ++ [Eof] ->
  exists txt toks',
    formatted_text doc ins ts = Done txt /\ lex txt = Some toks' /\
    code_kinds toks' = code_kinds toks /\ comment_bodies toks' = comment_bodies toks /\
    Forall (fun t => terr t = []) toks'.
Proof. exact FormatStructProg.document_lead. Qed.
Print Assumptions C10_lead_comments_kept.

(* ================================================================================================
   6. The exact characterisation, for every valid program with comments anywhere (Proofs/FormatAny*.v)

   [kept p] (unfolded in Props/C09.v, C09_kept_unfold): every slot inside an expression / variable / type expression
   emptied; an assignment, a call, a parameter, a variable declaration carries ALL comments of its token range in front of
   its first token; if / while keep the comments in front of the keyword only; a block keeps the comments in front of `{`
   unless it is the branch of an if / while, and never those in front of `}`; `type` / `proc` keep their doc comments only;
   nothing in front of EOF.  Hoisting moves a comment in front of the code of its construct, never across another comment:
   the RELATIVE ORDER of the surviving comments is the source order (no reordering finding). *)
From Spl Require Import Spec.Grammar Proofs.PipelineText Proofs.FormatStructProg Proofs.FormatAnyPP Proofs.FormatAnyKept
  Proofs.FormatAnyThm Proofs.FormatAnyComments.

Example C10_kept_unfold :
  (forall p, all_comments_printed p = (cmts (flatten (kept p)) = cmts (flatten p)))
  /\ (forall ks, cmts ks = flat_map (fun k => match k with Comment s => [s] | _ => [] end) ks)
  /\ (forall p, kept p = {| a_decls := map k_decl (a_decls p); a_ceof := [] |})
  /\ (forall (x : text) l' l, subseq l' l -> subseq (x :: l') (x :: l)) /\ (forall (x : text) l' l, subseq l' l -> subseq l' (x :: l))
  /\ subseq (@nil text) [].
Proof. repeat split; try reflexivity; intros; constructor; assumption. Qed.

(* the formatted document's comments are exactly the comments of [kept p], in order, each once *)
Theorem C10_comments_exactly_kept : forall p doc toks ins ts,
  prog_ok p = true -> aprog_valid p = true -> lex doc = Some toks -> map tk toks = flatten p ++ [Eof] ->
  exists txt toks',
    formatted_text doc ins ts = Done txt /\ lex txt = Some toks' /\
    comment_bodies toks' = map trim (cmts (flatten (kept p))) /\
    comment_bodies toks = map trim (cmts (flatten p)).
Proof.
  intros p doc toks ins ts H1 H2 H3 H4.
  destruct (document_comments p doc toks ins ts H1 H2 H3 H4) as (txt & toks' & E1 & E2 & E3 & E4 & _).
  exists txt, toks'. repeat split; assumption.
Qed.
Print Assumptions C10_comments_exactly_kept.

(* ... an order-preserving sublist of the source's comments: nothing invented, nothing duplicated, nothing reordered *)
Theorem C10_no_comment_invented_or_duplicated : forall p doc toks ins ts,
  prog_ok p = true -> aprog_valid p = true -> lex doc = Some toks -> map tk toks = flatten p ++ [Eof] ->
  exists txt toks',
    formatted_text doc ins ts = Done txt /\ lex txt = Some toks' /\
    subseq (comment_bodies toks') (comment_bodies toks) /\
    (forall c, In c (comment_bodies toks') -> In c (comment_bodies toks)) /\
    (forall c, (count_occ (list_eq_dec N.eq_dec) (comment_bodies toks') c <= count_occ (list_eq_dec N.eq_dec) (comment_bodies toks) c)%nat).
Proof.
  intros p doc toks ins ts H1 H2 H3 H4.
  destruct (document_comments p doc toks ins ts H1 H2 H3 H4) as (txt & toks' & E1 & E2 & _ & _ & E5 & E6 & _).
  exists txt, toks'. split; [exact E1|]. split; [exact E2|]. split; [exact E5|]. split; [|exact E6].
  intros c. apply (subseq_incl _ _ E5).
Qed.
Print Assumptions C10_no_comment_invented_or_duplicated.

(* ... and none is lost iff every comment stands in a printed slot *)
Theorem C10_all_kept_iff : forall p doc toks ins ts,
  prog_ok p = true -> aprog_valid p = true -> lex doc = Some toks -> map tk toks = flatten p ++ [Eof] ->
  exists txt toks',
    formatted_text doc ins ts = Done txt /\ lex txt = Some toks' /\
    (comment_bodies toks' = comment_bodies toks <-> all_comments_printed p).
Proof.
  intros p doc toks ins ts H1 H2 H3 H4.
  destruct (document_comments p doc toks ins ts H1 H2 H3 H4) as (txt & toks' & E1 & E2 & _ & _ & _ & _ & E7).
  exists txt, toks'. repeat split; try assumption; apply E7.
Qed.
Print Assumptions C10_all_kept_iff.

Theorem C10_lead_only_all_printed : forall p, lead_only p = true -> aprog_valid p = true -> all_comments_printed p.
Proof. exact lead_only_all_printed. Qed.
Print Assumptions C10_lead_only_all_printed.

(* a comment in each of the 64 gaps of this program (the two-letter names say where):
     t1 type t2 T t3 = ta array tl [ tz 3 tr ] to of tn int t4 ;
     p1 proc p2 f p3 ( a1 a a2 : a3 int cm , r1 ref r2 b r3 : T p4 ) p5 {
       v1 var v2 x v3 : vt int v4 ;
       e1 ;
       s1 x i1 [ l1 1 i2 ] s2 := n1 - q1 ( y1 y m1 * 2 d1 + 3 q2 ) s3 ;
       c1 g c2 ( 1 ca , 2 c3 ) c4 ;
       w1 while w2 ( x b1 < 1 w3 ) k1 { k2 }
       f1 if f2 ( x f3 ) g1 ; f4 else h1 if h2 ( x ) { j1 ; j2 }
       z1 { ; z2 }
     p6 } eo *)
Definition c10_f (f : afac) : acmp := CAdd (AMul (MFac f)).
Definition c10_x : acmp := c10_f (FVar (AName [] (str "x"))).
Definition c10_prog : aprog :=
  {| a_decls :=
       [DType [str " t1"] [str " t2"] (str "T") [str " t3"]
          (TArr [str " ta"] [str " tl"] [str " tz"] (LDec 3) [str " tr"] [str " to"] (TName [str " tn"] (str "int"))) [str " t4"];
        DProc [str " p1"] [str " p2"] (str "f") [str " p3"]
          (Some (PVal [str " a1"] (str "a") [str " a2"] (TName [str " a3"] (str "int")),
                 [([str " cm"], PRef [str " r1"] [str " r2"] (str "b") [str " r3"] (TName [] (str "T")))]))
          [str " p4"] [str " p5"]
          [{| v_c1 := [str " v1"]; v_c2 := [str " v2"]; v_x := str "x"; v_c3 := [str " v3"]; v_t := TName [str " vt"] (str "int"); v_c4 := [str " v4"] |}]
          (SCons (SEmp [str " e1"])
          (SCons (SAsg (AIndex (AName [str " s1"] (str "x")) [str " i1"] (c10_f (FLit [str " l1"] (LDec 1))) [str " i2"]) [str " s2"]
                    (c10_f (FNeg [str " n1"] (FPar [str " q1"]
                       (CAdd (ABin (AMul (MBin (MFac (FVar (AName [str " y1"] (str "y")))) [str " m1"] MTimes (FLit [] (LDec 2))))
                                   [str " d1"] APlus (MFac (FLit [] (LDec 3))))) [str " q2"]))) [str " s3"])
          (SCons (SCal [str " c1"] (str "g") [str " c2"] (Some (c10_f (FLit [] (LDec 1)), [([str " ca"], c10_f (FLit [] (LDec 2)))])) [str " c3"] [str " c4"])
          (SCons (SWhl [str " w1"] [str " w2"] (CBin (AMul (MFac (FVar (AName [] (str "x"))))) [str " b1"] CLt (AMul (MFac (FLit [] (LDec 1)))))
                    [str " w3"] (SBlk [str " k1"] SNil [str " k2"]))
          (SCons (SIfE [str " f1"] [str " f2"] c10_x [str " f3"] (SEmp [str " g1"]) [str " f4"]
                    (SIfT [str " h1"] [str " h2"] c10_x [] (SBlk [] (SCons (SEmp [str " j1"]) SNil) [str " j2"])))
          (SCons (SBlk [str " z1"] (SCons (SEmp []) SNil) [str " z2"])
           SNil))))))
          [str " p6"]];
     a_ceof := [str " eo"] |}.
Fixpoint c10_lines (l : list string) : text := match l with [] => [] | s :: r => str s ++ [10] ++ c10_lines r end.
Definition c10_doc : text := c10_lines [
  "// t1"; "type// t2"; "T// t3"; "=// ta"; "array// tl"; "[// tz"; "3// tr"; "]// to"; "of// tn"; "int// t4"; ";// p1";
  "proc// p2"; "f// p3"; "(// a1"; "a// a2"; ":// a3"; "int// cm"; ",// r1"; "ref// r2"; "b// r3"; ":T// p4"; ")// p5"; "{// v1";
  "var// v2"; "x// v3"; ":// vt"; "int// v4"; ";// e1";
  ";// s1"; "x// i1"; "[// l1"; "1// i2"; "]// s2"; ":=// n1"; "-// q1"; "(// y1"; "y// m1"; "*2// d1"; "+3// q2"; ")// s3"; ";// c1";
  "g// c2"; "(1// ca"; ",2// c3"; ")// c4"; ";// w1";
  "while// w2"; "(x// b1"; "<1// w3"; ")// k1"; "{// k2"; "}// f1";
  "if// f2"; "(x// f3"; ")// g1"; ";// f4"; "else// h1"; "if// h2"; "(x){// j1"; ";// j2"; "}// z1";
  "{;// z2"; "}// p6"; "}// eo"]%string.

Definition c10_survivors : list text :=
  map str ["t1"; "p1"; "a1"; "a2"; "a3"; "r1"; "r2"; "r3"; "v1"; "v2"; "v3"; "vt"; "v4"; "e1";
           "s1"; "i1"; "l1"; "i2"; "s2"; "n1"; "q1"; "y1"; "m1"; "d1"; "q2"; "s3"; "c1"; "c2"; "ca"; "c3"; "c4";
           "w1"; "f1"; "g1"; "h1"; "j1"; "z1"]%string.
Definition c10_lost : list text :=
  map str ["t2"; "t3"; "ta"; "tl"; "tz"; "tr"; "to"; "tn"; "t4"; "p2"; "p3"; "cm"; "p4"; "p5";
           "w2"; "b1"; "w3"; "k1"; "k2"; "f2"; "f3"; "f4"; "h2"; "j2"; "z2"; "p6"; "eo"]%string.

Example C10_gap_kinds_ex :
  aprog_valid c10_prog = true /\ prog_ok c10_prog = true /\ lead_only c10_prog = false
  /\ match lex c10_doc with Some toks => map tk toks = flatten c10_prog ++ [Eof] | None => False end
  /\ length (cmts (flatten c10_prog)) = 64%nat /\ length c10_survivors = 37%nat /\ length c10_lost = 27%nat
  /\ map trim (cmts (flatten (kept c10_prog))) = c10_survivors
  /\ match lex c10_doc, formatted_text c10_doc true 2 with
     | Some toks, Done out =>
         match lex out with
         | Some toks' => comment_bodies toks' = c10_survivors
                         /\ filter (fun c => negb (existsb (text_eqb c) c10_survivors)) (comment_bodies toks) = c10_lost
         | None => False
         end
     | _, _ => False
     end.
Proof. vm_compute. repeat split; reflexivity. Qed.

(* the instance THROUGH the theorem, for all option settings *)
Example C10_comments_exactly_kept_ex : forall ins ts,
  exists txt toks', formatted_text c10_doc ins ts = Done txt /\ lex txt = Some toks' /\ comment_bodies toks' = c10_survivors.
Proof.
  intros ins ts. destruct (lex c10_doc) as [toks|] eqn:El; [|vm_compute in El; discriminate].
  assert (H1 : prog_ok c10_prog = true) by (vm_compute; reflexivity).
  assert (H3 : aprog_valid c10_prog = true) by (vm_compute; reflexivity).
  assert (H5 : map tk toks = flatten c10_prog ++ [Eof]) by (vm_compute in El; injection El as <-; vm_compute; reflexivity).
  destruct (C10_comments_exactly_kept c10_prog c10_doc toks ins ts H1 H3 El H5) as (txt & toks' & E1 & E2 & E3 & _).
  exists txt, toks'. split; [exact E1|]. split; [exact E2|]. rewrite E3. vm_compute. reflexivity.
Qed.
