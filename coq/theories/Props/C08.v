(* C08 - text synchronisation: position <-> index conversion and application of content changes
   (lsp4spl::document, modelled in Model/Doc.v) against the LSP text model (Spec/LspText.v).
   Statements only; the proofs are in Proofs/DocProofs.v. *)
From Spl Require Import Model.Doc Spec.LspText Proofs.DocProofs.

(* "a\u{1F600}b\r\n" "\r" "c\n" "\n" "d": a 4-byte character (two UTF-16 units), a CRLF, a lone CR
   and two empty lines.  Byte offsets: a 0, U+1F600 1, b 5, CR 6, LF 7, CR 8, c 9, LF 10, LF 11, d 12; 13 bytes. *)
Definition c08_text : text := [97; 128512; 98; 13; 10; 13; 99; 10; 10; 100].
Definition c08_range : list N := [0; 1; 2; 3; 4; 5; 6; 7].

(* 1. The server's position -> index conversion is the LSP rule: UTF-16 columns; a column past
   the end of a line is the end of that line (never inside or beyond the terminator); "\n",
   "\r\n" and "\r" end a line; a line past the end is the end of the text.  [col_ok]: the column
   does not point between the two halves of a surrogate pair. *)
Theorem C08_index_is_offset : forall t l c,
  col_ok t l c = true -> get_insertion_index l c t = offset_of t l c.
Proof. exact index_is_offset. Qed.
Print Assumptions C08_index_is_offset.

Example C08_index_is_offset_ex :
  split_lines c08_text = [([97; 128512; 98], [13; 10]); ([], [13]); ([99], [10]); ([], [10]); ([100], [])]
  /\ col_ok c08_text 0 3 = true /\ get_insertion_index 0 3 c08_text = 5 /\ offset_of c08_text 0 3 = 5
  /\ col_ok c08_text 0 9 = true /\ get_insertion_index 0 9 c08_text = 6 /\ offset_of c08_text 0 9 = 6
  /\ col_ok c08_text 1 2 = true /\ get_insertion_index 1 2 c08_text = 8 /\ offset_of c08_text 1 2 = 8
  /\ col_ok c08_text 7 0 = true /\ get_insertion_index 7 0 c08_text = 13 /\ offset_of c08_text 7 0 = 13.
Proof. vm_compute. repeat split; reflexivity. Qed.

(* on this text the only excluded position with line, column < 8 is (0, 2), the middle of
   U+1F600; there the server rounds up (5) where [col_prefix] rounds down (1) *)
Example C08_index_is_offset_sweep :
  flat_map (fun l => flat_map (fun c => if col_ok c08_text l c then [] else [(l, c)]) c08_range) c08_range = [(0, 2)]
  /\ forallb (fun l => forallb (fun c => negb (col_ok c08_text l c)
                                       || (get_insertion_index l c c08_text =? offset_of c08_text l c))
                               c08_range) c08_range = true
  /\ get_insertion_index 0 2 c08_text = 5 /\ offset_of c08_text 0 2 = 1.
Proof. vm_compute. repeat split; reflexivity. Qed.

(* 2. Every returned index is a character boundary inside the text (String::replace_range
   cannot panic on it) - for every position, well-formed or not. *)
Theorem C08_index_on_boundary : forall t l c,
  exists a b, t = a ++ b /\ blen a = get_insertion_index l c t.
Proof. exact index_on_boundary. Qed.
Print Assumptions C08_index_on_boundary.

Example C08_index_on_boundary_ex :
  c08_text = [97; 128512] ++ [98; 13; 10; 13; 99; 10; 10; 100]
  /\ blen [97; 128512] = get_insertion_index 0 2 c08_text.
Proof. vm_compute. split; reflexivity. Qed.

(* 3. Positions in order give an ordered byte range. *)
Theorem C08_index_monotone : forall t l1 c1 l2 c2,
  (l1 < l2 \/ (l1 = l2 /\ c1 <= c2)) ->
  get_insertion_index l1 c1 t <= get_insertion_index l2 c2 t.
Proof. exact index_monotone. Qed.
Print Assumptions C08_index_monotone.

Example C08_index_monotone_ex :
  (0 < 1 \/ (0 = 1 /\ 7 <= 0))
  /\ get_insertion_index 0 7 c08_text = 6 /\ get_insertion_index 1 0 c08_text = 8
  /\ (get_insertion_index 0 7 c08_text <=? get_insertion_index 1 0 c08_text) = true.
Proof. split; [left; reflexivity | vm_compute; repeat split; reflexivity]. Qed.

(* 4. Applying a change whose range is in order never panics; a full-text change yields the
   new text. *)
Theorem C08_apply_total : forall t l1 c1 l2 c2 new,
  (l1 < l2 \/ (l1 = l2 /\ c1 <= c2)) ->
  exists t', apply_change t {| crange := Some ((l1, c1), (l2, c2)); ctext := new |} = Some t'.
Proof. exact apply_total. Qed.
Print Assumptions C08_apply_total.

Theorem C08_apply_total_full : forall t new,
  apply_change t {| crange := None; ctext := new |} = Some new.
Proof. exact apply_total_full. Qed.
Print Assumptions C08_apply_total_full.

Example C08_apply_total_ex :
  (0 < 2 \/ (0 = 2 /\ 2 <= 1))
  /\ apply_change c08_text {| crange := Some ((0, 2), (2, 1)); ctext := [120] |} = Some [97; 128512; 120; 10; 10; 100]
  /\ apply_change c08_text {| crange := None; ctext := [120] |} = Some [120].
Proof. split; [left; reflexivity | vm_compute; split; reflexivity]. Qed.

(* 5. For well-formed positions the server's edit is the client's edit. *)
Theorem C08_apply_is_lsp : forall t ch,
  (match crange ch with
   | Some ((l1, c1), (l2, c2)) => col_ok t l1 c1 = true /\ col_ok t l2 c2 = true
   | None => True
   end) ->
  apply_change t ch = lsp_apply t (crange ch) (ctext ch).
Proof. exact apply_is_lsp. Qed.
Print Assumptions C08_apply_is_lsp.

Example C08_apply_is_lsp_ex :
  let ch := {| crange := Some ((0, 3), (2, 1)); ctext := [120; 128512; 13] |} in
  col_ok c08_text 0 3 = true /\ col_ok c08_text 2 1 = true
  /\ apply_change c08_text ch = Some [97; 128512; 120; 128512; 13; 10; 10; 100]
  /\ lsp_apply c08_text (crange ch) (ctext ch) = Some [97; 128512; 120; 128512; 13; 10; 10; 100].
Proof. vm_compute. repeat split; reflexivity. Qed.

(* 6. A whole didChange notification keeps server and client in sync.  The definitions
   (Proofs/DocProofs.v) are
     change_ok t ch        := the hypothesis of C08_apply_is_lsp
     changes_ok t []       := True
     changes_ok t (ch::r)  := change_ok t ch /\ (if the client's edit yields t' then changes_ok t' r)
     lsp_apply_all t []      := Some t
     lsp_apply_all t (ch::r) := lsp_apply t (crange ch) (ctext ch) >>= fun t' => lsp_apply_all t' r *)
Example C08_changes_ok_unfold : forall t ch r,
  changes_ok t (ch :: r) =
  ((match crange ch with
    | Some ((l1, c1), (l2, c2)) => col_ok t l1 c1 = true /\ col_ok t l2 c2 = true
    | None => True
    end) /\
   match lsp_apply t (crange ch) (ctext ch) with Some t' => changes_ok t' r | None => True end)
  /\ changes_ok t [] = True.
Proof. intros. split; reflexivity. Qed.

Example C08_lsp_apply_all_unfold : forall t ch r,
  lsp_apply_all t (ch :: r) =
  match lsp_apply t (crange ch) (ctext ch) with Some t' => lsp_apply_all t' r | None => None end
  /\ lsp_apply_all t [] = Some t.
Proof. intros. split; reflexivity. Qed.

Theorem C08_sync : forall chs t, changes_ok t chs -> apply_changes t chs = lsp_apply_all t chs.
Proof. exact sync. Qed.
Print Assumptions C08_sync.

Example C08_sync_ex :
  let chs := [ {| crange := Some ((0, 3), (2, 1)); ctext := [120; 128512; 13] |};
               {| crange := Some ((1, 0), (1, 0)); ctext := [10] |};
               {| crange := Some ((0, 6), (9, 9)); ctext := [13; 10; 128512] |};
               {| crange := None; ctext := [121; 13] |};
               {| crange := Some ((1, 0), (1, 0)); ctext := [10; 128512] |} ] in
  changes_ok c08_text chs
  /\ apply_changes c08_text chs = Some [121; 13; 10; 128512]
  /\ lsp_apply_all c08_text chs = Some [121; 13; 10; 128512].
Proof. vm_compute. repeat split; reflexivity. Qed.

(* 7. A position reported by the server (as_position), sent back, addresses the same index -
   for every character boundary except the one between the CR and the LF of a CRLF (which has
   no LSP position of its own). *)
Theorem C08_roundtrip : forall a b,
  ~ (exists a' b', a = a' ++ [13] /\ b = 10 :: b') ->
  let p := as_position (blen a) (a ++ b) in
  get_insertion_index (fst p) (snd p) (a ++ b) = blen a.
Proof. exact roundtrip. Qed.
Print Assumptions C08_roundtrip.

Example C08_roundtrip_ex :
  let a := [97; 128512; 98; 13; 10; 13] in
  let b := [99; 10; 10; 100] in
  a ++ b = c08_text
  /\ ~ (exists a' b', a = a' ++ [13] /\ b = 10 :: b')
  /\ blen a = 9 /\ as_position (blen a) (a ++ b) = (2, 0) /\ get_insertion_index 2 0 (a ++ b) = 9.
Proof.
  cbv zeta. split; [reflexivity|]. split; [intros (a' & b' & _ & E); discriminate E|].
  vm_compute. repeat split; reflexivity.
Qed.

(* all character boundaries of the example text: each round-trips except 7, between CR and LF,
   whose reported position (0, 4) is the end of line 0, i.e. index 6 *)
Example C08_roundtrip_sweep :
  map (fun i => let p := as_position i c08_text in (i, p, get_insertion_index (fst p) (snd p) c08_text))
      [0; 1; 5; 6; 7; 8; 9; 10; 11; 12; 13]
  = [(0, (0, 0), 0); (1, (0, 1), 1); (5, (0, 3), 5); (6, (0, 4), 6); (7, (0, 4), 6); (8, (1, 0), 8);
     (9, (2, 0), 9); (10, (2, 1), 10); (11, (3, 0), 11); (12, (4, 0), 12); (13, (4, 1), 13)].
Proof. vm_compute. reflexivity. Qed.

(* ------------------------------------------------------------------------------------------ *)
(* 8. TOKENS.  "Any range the server reports for a token, sent back as a request position, addresses that
   same token."  The server reports as_position (ts tok) / as_position (te tok) of lexer tokens (semantic
   tokens, hover / rename / reference ranges, diagnostics); a request position is mapped back with
   get_insertion_index and looked up in the token vector ([token_at] = DocumentCursor::ident's `find`,
   through [doc_cursor]).  Statements for ALL texts t and all tokens of lex t, Eof included.
   Proofs in Proofs/TokRoundLex.v (where token boundaries can lie) and Proofs/TokRoundTop.v. *)
From Spl Require Import Model.Lexer Model.Cursor Proofs.TokRoundTop.

(* 8.1 a token STARTS on a character boundary that is never between the CR and the LF of a CR LF pair
   (white space - blank, tab, CR, LF - is skipped in front of every token, so what follows the start is
   not an LF) ... *)
Theorem C08_token_start_boundary : forall t toks tok,
  lex t = Some toks -> In tok toks ->
  exists a b, t = a ++ b /\ blen a = ts tok /\ ~ (exists a' b', a = a' ++ [13] /\ b = 10 :: b').
Proof. exact tok_start_boundary. Qed.
Print Assumptions C08_token_start_boundary.

(* ... hence the reported start position of every token, sent back, is the start of that token *)
Theorem C08_token_start_roundtrip : forall t toks tok,
  lex t = Some toks -> In tok toks ->
  let p := as_position (ts tok) t in
  get_insertion_index (fst p) (snd p) t = ts tok.
Proof. exact tok_start_roundtrip. Qed.
Print Assumptions C08_token_start_roundtrip.

(* 8.2 a token ENDS on a character boundary; this boundary lies between a CR and its LF for exactly one
   kind of token: the unterminated character literal "'" CR directly followed by LF (Char::lex takes
   `anychar` behind the tick; the token is the two bytes "'" CR and carries MissingClosingTick at its end).
   A comment takes the CR of its line and the LF, so it ends behind the pair. *)
Theorem C08_token_end_boundary : forall t toks tok,
  lex t = Some toks -> In tok toks ->
  exists a b, t = a ++ b /\ blen a = te tok /\
    ((exists a' b', a = a' ++ [13] /\ b = 10 :: b') ->
     tk tok = CharT 13 /\ terr tok = [mkerr (te tok) (te tok) MissingClosingTick] /\ te tok = ts tok + 2).
Proof. exact tok_end_boundary. Qed.
Print Assumptions C08_token_end_boundary.

(* the reported end position of every other token, sent back, is the end of that token *)
Theorem C08_token_end_roundtrip : forall t toks tok,
  lex t = Some toks -> In tok toks ->
  ~ (tk tok = CharT 13 /\ terr tok <> [] /\ exists a b', t = a ++ 10 :: b' /\ blen a = te tok) ->
  let p := as_position (te tok) t in
  get_insertion_index (fst p) (snd p) t = te tok.
Proof. exact tok_end_roundtrip. Qed.
Print Assumptions C08_token_end_roundtrip.

(* FINDING (the excluded token): the end of "'" CR in front of LF is reported as the position in front of the
   CR - the reported range of the token and of its diagnostic covers the tick only - and, sent back, yields
   te tok - 1 = ts tok + 1, an index INSIDE the token *)
Theorem C08_token_end_crlf : forall t toks tok,
  lex t = Some toks -> In tok toks ->
  tk tok = CharT 13 -> terr tok <> [] -> (exists a b', t = a ++ 10 :: b' /\ blen a = te tok) ->
  let p := as_position (te tok) t in
  te tok = ts tok + 2 /\
  p = as_position (ts tok + 1) t /\
  get_insertion_index (fst p) (snd p) t = ts tok + 1.
Proof. exact tok_end_roundtrip_cr. Qed.
Print Assumptions C08_token_end_crlf.

(* 8.3 the token lookup of the request handlers, at the index of a reported token start, finds that token *)
Theorem C08_token_lookup : forall t toks tok,
  lex t = Some toks -> In tok toks -> tk tok <> Eof ->
  let p := as_position (ts tok) t in
  token_at toks (get_insertion_index (fst p) (snd p) t) = Some tok.
Proof. exact tok_start_lookup. Qed.
Print Assumptions C08_token_lookup.

(* ... through doc_cursor (every position-based handler's first step) and DocumentCursor::ident *)
Theorem C08_token_cursor : forall d tok cur,
  lex (d_text d) = Some (d_toks d) -> In tok (d_toks d) -> tk tok <> Eof ->
  let p := as_position (ts tok) (d_text d) in
  doc_cursor d (fst p) (snd p) = ROk cur ->
  token_at (d_toks (c_doc cur)) (c_index cur) = Some tok /\
  (forall name, tk tok = Ident name -> cursor_ident cur = Some (name, (ts tok, te tok))).
Proof. exact tok_start_cursor. Qed.
Print Assumptions C08_token_cursor.

(* even the reported END of the excluded token is looked up as that token *)
Theorem C08_token_end_crlf_lookup : forall t toks tok,
  lex t = Some toks -> In tok toks ->
  tk tok = CharT 13 -> terr tok <> [] -> (exists a b', t = a ++ 10 :: b' /\ blen a = te tok) ->
  let p := as_position (te tok) t in
  token_at toks (get_insertion_index (fst p) (snd p) t) = Some tok.
Proof. exact tok_end_lookup_cr. Qed.
Print Assumptions C08_token_end_crlf_lookup.

(* non-vacuity, evaluated independently of the theorems.  The text is
     "// " U+00E9 U+20AC CR LF  "xy := '" U+00E4 "';" CR LF  "'" CR LF  CR  "y"
   - a comment with a 2-byte and a 3-byte character that ends in CR LF, a character literal with a 2-byte
   character, the excluded literal "'" CR in front of LF, a lone CR as line end.  Lines: 0 the comment,
   1 the assignment, 2 "'" CR LF, 3 the lone CR, 4 "y". *)
Definition c08_tok_text : text :=
  [47; 47; 32; 233; 8364; 13; 10;  120; 121; 32; 58; 61; 32; 39; 228; 39; 59; 13; 10;  39; 13; 10;  13;  121].
Definition c08_tick_cr : token :=
  {| tk := CharT 13; ts := 23; te := 25; terr := [ {| le_s := 25; le_e := 25; le_m := MissingClosingTick |} ] |}.
Definition c08_toks : list token :=
  [ {| tk := Comment [32; 233; 8364; 13]; ts := 0; te := 10; terr := [] |};
    {| tk := Ident [120; 121]; ts := 10; te := 12; terr := [] |};
    {| tk := Assign; ts := 13; te := 15; terr := [] |};
    {| tk := CharT 228; ts := 16; te := 20; terr := [] |};
    {| tk := Semic; ts := 20; te := 21; terr := [] |};
    c08_tick_cr;
    {| tk := Ident [121]; ts := 27; te := 28; terr := [] |};
    {| tk := Eof; ts := 28; te := 28; terr := [] |} ].

Example C08_token_ex_lex : lex c08_tok_text = Some c08_toks.
Proof. vm_compute. reflexivity. Qed.

(* per token: start, end, reported start position and the index it yields, reported end position and the
   index it yields.  Every start round-trips; every end round-trips except 25, the end of "'" CR: its
   position (2, 1) is the one of index 24 *)
Example C08_token_ex_sweep :
  map (fun k => let p := as_position (ts k) c08_tok_text in
                let q := as_position (te k) c08_tok_text in
                (ts k, te k, (p, get_insertion_index (fst p) (snd p) c08_tok_text),
                             (q, get_insertion_index (fst q) (snd q) c08_tok_text))) c08_toks
  = [ (0, 10, ((0, 0), 0), ((1, 0), 10));
      (10, 12, ((1, 0), 10), ((1, 2), 12));
      (13, 15, ((1, 3), 13), ((1, 5), 15));
      (16, 20, ((1, 6), 16), ((1, 9), 20));
      (20, 21, ((1, 9), 20), ((1, 10), 21));
      (23, 25, ((2, 0), 23), ((2, 1), 24));
      (27, 28, ((4, 0), 27), ((4, 1), 28));
      (28, 28, ((4, 1), 28), ((4, 1), 28)) ].
Proof. vm_compute. reflexivity. Qed.

(* the lookup at the index of every reported start finds the token itself (nothing for the empty Eof) *)
Example C08_token_ex_lookup :
  map (fun k => let p := as_position (ts k) c08_tok_text in
                token_at c08_toks (get_insertion_index (fst p) (snd p) c08_tok_text)) c08_toks
  = map (fun k => match tk k with Eof => None | _ => Some k end) c08_toks.
Proof. vm_compute. reflexivity. Qed.

(* the counterexample: the hypotheses of C08_token_end_crlf hold for the sixth token, the cut at its end is
   between CR and LF, and the round trip of its end misses it by one *)
Example C08_token_ex_crlf :
  In c08_tick_cr c08_toks
  /\ tk c08_tick_cr = CharT 13 /\ terr c08_tick_cr <> []
  /\ (exists a b', c08_tok_text = a ++ 10 :: b' /\ blen a = te c08_tick_cr)
  /\ as_position (te c08_tick_cr) c08_tok_text = (2, 1)
  /\ as_position (ts c08_tick_cr + 1) c08_tok_text = (2, 1)
  /\ get_insertion_index 2 1 c08_tok_text = 24
  /\ token_at c08_toks 24 = Some c08_tick_cr.
Proof.
  split; [cbn; tauto|]. split; [reflexivity|]. split; [discriminate|]. split.
  - exists [47; 47; 32; 233; 8364; 13; 10;  120; 121; 32; 58; 61; 32; 39; 228; 39; 59; 13; 10;  39; 13], [13; 121].
    split; vm_compute; reflexivity.
  - vm_compute. repeat split; reflexivity.
Qed.

(* the smallest instance, and the neighbouring cases that are NOT exceptions: a comment in front of CR LF
   ends behind the LF; "'" CR at the end of the text and "'" CR "'" end at ordinary boundaries *)
Example C08_token_ex_small :
  lex [39; 13; 10]
  = Some [ {| tk := CharT 13; ts := 0; te := 2; terr := [ {| le_s := 2; le_e := 2; le_m := MissingClosingTick |} ] |};
           {| tk := Eof; ts := 3; te := 3; terr := [] |} ]
  /\ as_position 2 [39; 13; 10] = (0, 1) /\ get_insertion_index 0 1 [39; 13; 10] = 1
  /\ lex [47; 47; 120; 13; 10; 39; 13]
     = Some [ {| tk := Comment [120; 13]; ts := 0; te := 5; terr := [] |};
              {| tk := CharT 13; ts := 5; te := 7; terr := [ {| le_s := 7; le_e := 7; le_m := MissingClosingTick |} ] |};
              {| tk := Eof; ts := 7; te := 7; terr := [] |} ]
  /\ as_position 7 [47; 47; 120; 13; 10; 39; 13] = (2, 0) /\ get_insertion_index 2 0 [47; 47; 120; 13; 10; 39; 13] = 7
  /\ lex [39; 13; 39; 10]
     = Some [ {| tk := CharT 13; ts := 0; te := 3; terr := [] |}; {| tk := Eof; ts := 4; te := 4; terr := [] |} ]
  /\ as_position 3 [39; 13; 39; 10] = (1, 1) /\ get_insertion_index 1 1 [39; 13; 39; 10] = 3.
Proof. vm_compute. repeat split; reflexivity. Qed.
