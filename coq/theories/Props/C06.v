(* C06 - tokenisation is lossless and follows the SPL lexical grammar.
   This file contains statements only; every proof is `exact <lemma>`. *)
From Spl Require Import Model.Lexer Spec.LexSpec Proofs.LexerProofs.

(* the lexer never fails ("Lexing must not fail." is unreachable) and never runs out of fuel *)
Theorem C06_total : forall s : text, exists toks, lex s = Some toks.
Proof. exact lex_total. Qed.
Print Assumptions C06_total.

(* the token sequence tiles the text: whitespace, non-empty lexeme, whitespace, ..., Eof *)
Theorem C06_tiling : forall s toks, lex s = Some toks -> Tiles 0 s toks.
Proof. exact lex_tiles. Qed.
Print Assumptions C06_tiling.

(* ... hence ends with exactly one Eof token, of width 0, at the end of the text *)
Theorem C06_one_eof : forall s toks, lex s = Some toks ->
  exists body, toks = body ++ [ {| tk := Eof; ts := blen s; te := blen s; terr := [] |} ]
               /\ Forall (fun t => tk t <> Eof) body.
Proof. intros s toks H. exact (tiles_last_eof 0 s toks (lex_tiles s toks H)). Qed.
Print Assumptions C06_one_eof.

(* ... is ordered, non-overlapping, and every token except Eof is non-empty *)
Theorem C06_ordered : forall s toks, lex s = Some toks -> Ordered 0 toks.
Proof. intros s toks H. exact (tiles_ordered 0 s toks (lex_tiles s toks H)). Qed.
Print Assumptions C06_ordered.

(* ... every token starts and ends on a character boundary inside the text *)
Theorem C06_boundaries : forall s toks, lex s = Some toks ->
  Forall (fun t => exists a b c, s = a ++ b ++ c /\ ts t = 0 + blen a /\ te t = ts t + blen b) toks.
Proof. intros s toks H. exact (tiles_boundaries 0 s toks (lex_tiles s toks H)). Qed.
Print Assumptions C06_boundaries.

(* ... and no character is dropped or counted twice: the text is the interleaving of
   whitespace-only gaps with the tokens' own slices *)
Theorem C06_lossless : forall s toks, lex s = Some toks ->
  exists gaps lexemes,
    s = weave gaps lexemes /\
    length gaps = length toks /\ length lexemes = (length toks - 1)%nat /\
    Forall (fun g => forallb is_ws g = true) gaps /\
    Forall2 (fun t l => te t = ts t + blen l /\ l <> []) (removelast toks) lexemes.
Proof. intros s toks H. exact (tiles_lossless 0 s toks (lex_tiles s toks H)). Qed.
Print Assumptions C06_lossless.

(* non-vacuity: a concrete text and its tiling *)
Example C06_example :
  lex [116; 32; 58; 61; 48; 120; 49; 70; 10; 47; 47; 233]
  = Some [ {| tk := Ident [116]; ts := 0; te := 1; terr := [] |};
           {| tk := Assign; ts := 2; te := 4; terr := [] |};
           {| tk := HexT (IntOk 31); ts := 4; te := 8; terr := [] |};
           {| tk := Comment [233]; ts := 9; te := 13; terr := [] |};
           {| tk := Eof; ts := 13; te := 13; terr := [] |} ].
Proof. vm_compute. reflexivity. Qed.

(* ------------------------------------------------------------------------------------------ *)
(* CONFORMANCE with the SPL lexical grammar (Spec/LexSpec.v: `Lexeme k lx` = the character sequence lx is
   a lexeme of kind and value k; `Delimited k lx rest` = what follows does not extend it), for ALL inputs.
   Proofs in Proofs/LexConformOne.v (one token) and Proofs/LexConform.v (whole texts). *)
From Spl Require Import Proofs.LexLocality Proofs.LexRun Proofs.LexConformOne Proofs.LexConform.

(* one token: on a delimited lexeme the lexer returns exactly this lexeme, with its kind and value, no
   lexical error, and leaves the rest untouched (lexres = kind, errors, lexeme, rest).  This is longest
   match, keywords only as whole words, literal values and comment extent in one statement. *)
Theorem C06_conformance_one : forall k lx rest,
  Lexeme k lx -> Delimited k lx rest -> lex_raw (lx ++ rest) = Some (k, [], lx, rest).
Proof. exact lex_raw_lexeme. Qed.
Print Assumptions C06_conformance_one.

(* whole texts: lexemes ls = [(k1,lx1); ...] woven with whitespace separators seps = [s0; ...; sn]
   (s0 lx1 s1 lx2 ... lxn sn; separators may be empty), every lexeme delimited by what follows it in the
   text (`follow`: the next separator if it is not empty, else the next lexeme): the lexer returns exactly
   these lexemes - kinds and values, no lexical error, token i at the byte offset of everything woven in
   front of lexeme i and as wide as lexeme i, and one Eof of width 0 at the end of the text. *)
Theorem C06_conformance : forall (ls : list (kind * text)) (seps : list text),
  length seps = S (length ls) ->
  Forall (fun s => forallb is_ws s = true) seps ->
  Forall (fun kl => Lexeme (fst kl) (snd kl)) ls ->
  SeparatedOK ls seps ->
  exists toks,
    lex (weave seps (map snd ls)) = Some toks /\
    map tk toks = map fst ls ++ [Eof] /\
    Forall (fun t => terr t = []) toks /\
    (forall i kl, nth_error ls i = Some kl ->
       exists t suffix,
         nth_error toks i = Some t /\ tk t = fst kl /\
         ts t = blen (weave (firstn (S i) seps) (firstn i (map snd ls))) /\
         te t = ts t + blen (snd kl) /\
         weave seps (map snd ls) = weave (firstn (S i) seps) (firstn i (map snd ls)) ++ snd kl ++ suffix) /\
    nth_error toks (length ls) = Some (eof_token (blen (weave seps (map snd ls)))).
Proof. exact conformance. Qed.
Print Assumptions C06_conformance.

(* the same as one equation: the token vector is `place 0 seps ls` *)
Theorem C06_conformance_place : forall ls seps,
  length seps = S (length ls) ->
  Forall (fun s => forallb is_ws s = true) seps ->
  Forall (fun kl => Lexeme (fst kl) (snd kl)) ls ->
  SeparatedOK ls seps ->
  lex (weave seps (map snd ls)) = Some (place 0 seps ls).
Proof. exact conformance_place. Qed.
Print Assumptions C06_conformance_place.

(* a purely syntactic sufficient condition: if every separator behind a lexeme is NON-EMPTY whitespace
   (and every comment lexeme is written with its closing line feed), any sequence of lexemes is separated *)
Theorem C06_conformance_nonempty_seps : forall ls seps,
  length seps = S (length ls) ->
  Forall (fun s => forallb is_ws s = true) seps ->
  Forall (fun s => s <> []) (tl seps) ->
  Forall (fun kl => Lexeme (fst kl) (snd kl)) ls ->
  Forall (fun kl => closed_comment (fst kl) (snd kl)) ls ->
  lex (weave seps (map snd ls)) = Some (place 0 seps ls) /\
  map tk (place 0 seps ls) = map fst ls ++ [Eof].
Proof. exact conformance_nonempty_seps. Qed.
Print Assumptions C06_conformance_nonempty_seps.

(* keywords only as whole words: a keyword spelling followed by the end of the text or by a character that
   is not a letter, digit or '_' is the keyword; followed by letters, digits or '_' the whole word is ONE
   identifier (never keyword + identifier) *)
Theorem C06_keywords_whole_words :
  (forall p k rest, In (p, k) kw_table ->
     match rest with [] => True | c :: _ => is_alnum_trunc c = false end ->
     lex_raw (p ++ rest) = Some (k, [], p, rest)) /\
  (forall p k (r rest : text), In (p, k) kw_table -> r <> [] -> forallb is_alnum_ascii r = true ->
     match rest with [] => True | c :: _ => is_alnum_trunc c = false end ->
     lex_raw ((p ++ r) ++ rest) = Some (Ident (p ++ r), [], p ++ r, rest)).
Proof. exact (conj kw_whole_word kw_prefix_is_ident). Qed.
Print Assumptions C06_keywords_whole_words.

(* literal values.  `positional b val d` is the value of the digit string d in base b. *)
Definition positional (b : N) (val : char -> N) (d : text) : N := fold_left (fun a c => a * b + val c) d 0.
Definition dec_digit (c : char) : N := c - 48.                                     (* '0'..'9' *)
Definition hex_digit (c : char) : N :=
  if c <=? 57 then c - 48 else if c <=? 70 then c - 55 else c - 87.                (* '0'..'9' 'A'..'F' 'a'..'f' *)

Lemma positional_snoc b val d c : positional b val (d ++ [c]) = positional b val d * b + val c.
Proof. unfold positional. now rewrite fold_left_app. Qed.

Theorem C06_literal_values :
  (* decimal: a non-empty digit string with value < 2^32, not followed by a digit (and not the `0` of `0x`) *)
  (forall (d rest : text), d <> [] -> forallb is_digit d = true -> positional 10 dec_digit d < 4294967296 ->
     match rest with [] => True | c :: _ => is_digit c = false /\ ~ (d = [48] /\ c = 120) end ->
     lex_raw (d ++ rest) = Some (IntT (IntOk (positional 10 dec_digit d)), [], d, rest)) /\
  (* hexadecimal: `0x` and a non-empty hex digit string with value < 2^32, not followed by a hex digit *)
  (forall (d rest : text), d <> [] -> forallb is_hex d = true -> positional 16 hex_digit d < 4294967296 ->
     match rest with [] => True | c :: _ => is_hex c = false end ->
     lex_raw ((48 :: 120 :: d) ++ rest) = Some (HexT (IntOk (positional 16 hex_digit d)), [], 48 :: 120 :: d, rest)) /\
  (* character literals: 'c' has the code point of c, '\n' is 10 *)
  (forall c rest, lex_raw ([39; c; 39] ++ rest) = Some (CharT c, [], [39; c; 39], rest)) /\
  (forall rest, lex_raw ([39; 92; 110; 39] ++ rest) = Some (CharT 10, [], [39; 92; 110; 39], rest)).
Proof.
  exact (conj (fun d rest H1 H2 H3 H4 => lex_raw_int d _ rest H1 H2 eq_refl H3 H4)
        (conj (fun d rest H1 H2 H3 H4 => lex_raw_hex d _ rest H1 H2 eq_refl H3 H4)
        (conj lex_raw_char lex_raw_char_nl))).
Qed.
Print Assumptions C06_literal_values.

(* comments run to the end of the line (the line feed belongs to the lexeme) or to the end of the text *)
Theorem C06_comment_extent :
  (forall (body rest : text), forallb (fun c => negb (c =? 10)) body = true ->
     lex_raw (47 :: 47 :: body ++ 10 :: rest) = Some (Comment body, [], 47 :: 47 :: body ++ [10], rest)) /\
  (forall (body : text), forallb (fun c => negb (c =? 10)) body = true ->
     lex_raw (47 :: 47 :: body) = Some (Comment body, [], 47 :: 47 :: body, [])).
Proof. exact (conj lex_raw_comment_nl lex_raw_comment_eot). Qed.
Print Assumptions C06_comment_extent.

(* ---- non-vacuity, evaluated independently of the theorems ---- *)
Definition tok k a b := {| tk := k; ts := a; te := b; terr := [] |}.
(* `ifx` is one identifier; `if(` is keyword + parenthesis *)
Example C06_ex_ifx : lex [105; 102; 120] = Some [tok (Ident [105; 102; 120]) 0 3; tok Eof 3 3].
Proof. vm_compute. reflexivity. Qed.
Example C06_ex_if_paren : lex [105; 102; 40] = Some [tok KIf 0 2; tok LParen 2 3; tok Eof 3 3].
Proof. vm_compute. reflexivity. Qed.
(* `<=` is one token, `< =` two *)
Example C06_ex_le : lex [60; 61] = Some [tok LeT 0 2; tok Eof 2 2].
Proof. vm_compute. reflexivity. Qed.
Example C06_ex_lt_eq : lex [60; 32; 61] = Some [tok LtT 0 1; tok EqT 2 3; tok Eof 3 3].
Proof. vm_compute. reflexivity. Qed.
(* 0x1F = 31, '\n' = 10, 007 = 7 *)
Example C06_ex_hex : lex [48; 120; 49; 70] = Some [tok (HexT (IntOk 31)) 0 4; tok Eof 4 4].
Proof. vm_compute. reflexivity. Qed.
Example C06_ex_char_nl : lex [39; 92; 110; 39] = Some [tok (CharT 10) 0 4; tok Eof 4 4].
Proof. vm_compute. reflexivity. Qed.
Example C06_ex_007 : lex [48; 48; 55] = Some [tok (IntT (IntOk 7)) 0 3; tok Eof 3 3].
Proof. vm_compute. reflexivity. Qed.
(* `//c` at the end of the text is a comment *)
Example C06_ex_comment_eot : lex [47; 47; 99] = Some [tok (Comment [99]) 0 3; tok Eof 3 3].
Proof. vm_compute. reflexivity. Qed.
(* 4294967296 = 2^32 is an error-carrying Int (not a Lexeme: outside conformance, inside the tiling part) *)
Example C06_ex_overflow :
  lex [52; 50; 57; 52; 57; 54; 55; 50; 57; 54]
  = Some [ {| tk := IntT (IntErr [52; 50; 57; 52; 57; 54; 55; 50; 57; 54]); ts := 0; te := 10;
              terr := [ {| le_s := 0; le_e := 10; le_m := InvalidIntLit [52; 50; 57; 52; 57; 54; 55; 50; 57; 54] |} ] |};
           tok Eof 10 10 ].
Proof. vm_compute. reflexivity. Qed.
(* the hypotheses of C06_conformance are satisfiable with EMPTY separators, and the instance is what the
   model computes:  x:=0x1F;//c<LF>if(a<=1)  *)
Definition ex_ls : list (kind * text) :=
  [ (Ident [120], [120]); (Assign, [58; 61]); (HexT (IntOk 31), [48; 120; 49; 70]); (Semic, [59]);
    (Comment [99], [47; 47; 99; 10]); (KIf, [105; 102]); (LParen, [40]); (Ident [97], [97]); (LeT, [60; 61]);
    (IntT (IntOk 1), [49]); (RParen, [41]) ].
Definition ex_seps : list text := [[32]; []; []; []; []; []; []; []; []; []; []; [10]].
Example C06_ex_conformance_hyps :
  length ex_seps = S (length ex_ls) /\ Forall (fun s => forallb is_ws s = true) ex_seps /\
  Forall (fun kl => Lexeme (fst kl) (snd kl)) ex_ls /\ SeparatedOK ex_ls ex_seps.
Proof.
  split; [reflexivity|]. split; [repeat constructor|]. split.
  - repeat (apply Forall_cons; [|]); try apply Forall_nil; cbn [fst snd].
    + now apply (Lx_ident 120 []).
    + apply Lx_sym. cbn. tauto.
    + apply (Lx_hex [49; 70] 31); [discriminate | reflexivity | reflexivity | reflexivity].
    + apply Lx_sym. cbn. tauto.
    + apply (Lx_comment [99]). reflexivity.
    + apply Lx_kw. cbn. tauto.
    + apply Lx_sym. cbn. tauto.
    + now apply (Lx_ident 97 []).
    + apply Lx_sym. cbn. tauto.
    + apply (Lx_int [49] 1); [discriminate | reflexivity | reflexivity | reflexivity].
    + apply Lx_sym. cbn. tauto.
  - cbn. repeat split; try discriminate; intros [H _]; discriminate H.
Qed.
Example C06_ex_conformance_instance :
  lex (weave ex_seps (map snd ex_ls)) = Some (place 0 ex_seps ex_ls) /\
  map tk (place 0 ex_seps ex_ls)
  = [Ident [120]; Assign; HexT (IntOk 31); Semic; Comment [99]; KIf; LParen; Ident [97]; LeT; IntT (IntOk 1); RParen; Eof].
Proof. vm_compute. split; reflexivity. Qed.
(* Delimited is needed: `x` directly followed by `1` is not two lexemes but one identifier *)
Example C06_ex_not_delimited :
  ~ Delimited (Ident [120]) [120] [49] /\ lex [120; 49] = Some [tok (Ident [120; 49]) 0 2; tok Eof 2 2].
Proof. split; [cbn; discriminate | vm_compute; reflexivity]. Qed.
