(* C06 - tokenisation is lossless and follows the SPL lexical grammar.
   This file contains statements only; every proof is `exact <lemma>`. *)
From Spl Require Import Model.Lexer Spec.LexSpec Proofs.LexerProofs.

(* the lexer never fails ("Lexing must not fail." is unreachable) and never runs out of fuel *)
Theorem C06_total : forall s : text, exists toks, lex s = Some toks.
Proof. exact lex_total. Qed.
Print Assumptions C06_total.

(* the token sequence tiles the text: whitespace, non-empty lexeme, whitespace, ..., Eof *)
Theorem C06_tiling : forall s toks, lex s = Some toks -> Tiles 0 s toks.
Proof. exact lex_tiles. Qed.
Print Assumptions C06_tiling.

(* ... hence ends with exactly one Eof token, of width 0, at the end of the text *)
Theorem C06_one_eof : forall s toks, lex s = Some toks ->
  exists body, toks = body ++ [ {| tk := Eof; ts := blen s; te := blen s; terr := [] |} ]
               /\ Forall (fun t => tk t <> Eof) body.
Proof. intros s toks H. exact (tiles_last_eof 0 s toks (lex_tiles s toks H)). Qed.
Print Assumptions C06_one_eof.

(* ... is ordered, non-overlapping, and every token except Eof is non-empty *)
Theorem C06_ordered : forall s toks, lex s = Some toks -> Ordered 0 toks.
Proof. intros s toks H. exact (tiles_ordered 0 s toks (lex_tiles s toks H)). Qed.
Print Assumptions C06_ordered.

(* ... every token starts and ends on a character boundary inside the text *)
Theorem C06_boundaries : forall s toks, lex s = Some toks ->
  Forall (fun t => exists a b c, s = a ++ b ++ c /\ ts t = 0 + blen a /\ te t = ts t + blen b) toks.
Proof. intros s toks H. exact (tiles_boundaries 0 s toks (lex_tiles s toks H)). Qed.
Print Assumptions C06_boundaries.

(* ... and no character is dropped or counted twice: the text is the interleaving of
   whitespace-only gaps with the tokens' own slices *)
Theorem C06_lossless : forall s toks, lex s = Some toks ->
  exists gaps lexemes,
    s = weave gaps lexemes /\
    length gaps = length toks /\ length lexemes = (length toks - 1)%nat /\
    Forall (fun g => forallb is_ws g = true) gaps /\
    Forall2 (fun t l => te t = ts t + blen l /\ l <> []) (removelast toks) lexemes.
Proof. intros s toks H. exact (tiles_lossless 0 s toks (lex_tiles s toks H)). Qed.
Print Assumptions C06_lossless.

(* non-vacuity: a concrete text and its tiling *)
Example C06_example :
  lex [116; 32; 58; 61; 48; 120; 49; 70; 10; 47; 47; 233]
  = Some [ {| tk := Ident [116]; ts := 0; te := 1; terr := [] |};
           {| tk := Assign; ts := 2; te := 4; terr := [] |};
           {| tk := HexT (IntOk 31); ts := 4; te := 8; terr := [] |};
           {| tk := Comment [233]; ts := 9; te := 13; terr := [] |};
           {| tk := Eof; ts := 13; te := 13; terr := [] |} ].
Proof. vm_compute. reflexivity. Qed.
