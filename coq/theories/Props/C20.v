(* C20 - ordering, read-your-writes and document isolation under load.  Statements only; the
   proofs are in Proofs/BrokerProofs.v, the model is Model/Broker.v.

   The model: three processes - the reader (server.rs `phases::main`), the document broker
   (document.rs `broker`) and the responder (io.rs `responder`) - connected by two bounded FIFO
   channels of capacity [w_cap] (reader -> broker, reader/broker -> responder) and a one-shot
   reply per GetInfo (features.rs `get_doc`).  One step is one atomic channel operation of one
   process; a schedule is an ARBITRARY list of process ids ([proc]); scheduling a process that is
   blocked (channel full / empty, reply not there yet) does nothing.  [w_run w sched ms] is the
   state reached on the client messages [ms] under [sched]; [w_written] are the frames written
   to stdout so far.

   Every parameter of the model is universally quantified through [w : world]: the types of
   URIs, document states, payloads, requests and answers, the functions `AnalyzedSource::new`
   ([w_open_doc]), `AnalyzedSource::update` ([w_change_doc]), the feature handler applied to the
   GetInfo reply ([w_answer]), the diagnostics of a document ([w_diag]), whether the client
   announced publishDiagnostics ([w_send_diagnostics]) and the channel capacity ([w_cap]).

   The sequential specification [w_spec w ms] handles the messages one after the other
   (Broker.seq_run): didOpen stores `new text` and publishes its diagnostics, didChange updates
   an open document and publishes, didClose removes it, a request is answered from the map as
   it is at that point.  [w_docs_after w ms] is the document map after [ms].

   Not exhibited by the model: tokio's scheduler and its fairness, OS pipe buffering (the
   responder can always write), the blocking stdin thread.  Channels are assumed FIFO. *)
From Spl Require Import Model.Broker Proofs.BrokerProofs.

Arguments COpen {uri payload req}.
Arguments CChange {uri payload req}.
Arguments CClose {uri payload req}.
Arguments CReq {uri payload req}.
Arguments CLocal {uri payload req}.
Arguments CIgnored {uri payload req}.
Arguments OResp {uri ans}.
Arguments ODiag {uri ans}.

Import BrokerDemo.
Open Scope N_scope.

(* the example instance (BrokerDemo): URIs are numbers, a document is a list of numbers, didOpen
   stores its payload, didChange appends its payload, a request names a URI and is answered with
   the stored list ([] when the document is not open), diagnostics carry the analysed list;
   [burst] is
     [ COpen 1 [10]; COpen 2 [20]; CChange 1 [11]; CReq 100 1; CChange 2 [21]; CLocal 101 7; CReq 102 2;
       CClose 1; CReq 103 1; CChange 1 [12]; CIgnored; CReq 104 2 ]
   and the channels have capacity 2, so that back-pressure occurs within the 12 messages *)
Definition c20_w : world := demo_world true 2.
Definition c20_w_nodiag : world := demo_world false 2.
Definition c20_fair : list proc := rounds 40 [Reader; BrokerP; Responder].
Definition c20_greedy : list proc := rounds 30 [Reader; Reader; Reader; Reader; BrokerP; Responder; Responder].
Definition c20_lazy : list proc := rounds 30 [Responder; BrokerP; BrokerP; Reader; Reader; Reader; Responder; BrokerP].
Definition c20_slow_reader : list proc := rounds 40 [Reader; BrokerP; BrokerP; Responder].

(* ------------------------------------------------------------------------------------------ *)
(* 1. Every schedule refines the sequential specification.                                      *)

(* When all work is done, the response stream and the publishDiagnostics stream written to
   stdout are exactly those of the sequential specification - whatever the interleaving was. *)
Theorem C20_refines : forall (w : world) (ms : list (w_msg w)) (sched : list proc),
  let s := w_run w sched ms in
  w_quiescent w s ->
  w_responses w (w_written w s) = w_responses w (w_spec w ms) /\
  w_diagnostics w (w_written w s) = w_diagnostics w (w_spec w ms).
Proof. exact w_refines. Qed.
Print Assumptions C20_refines.

(* At every moment of every execution both streams are prefixes of the specification's: nothing
   out of order, nothing stale, nothing invented is ever written. *)
Theorem C20_prefix : forall (w : world) (ms : list (w_msg w)) (sched : list proc),
  let s := w_run w sched ms in
  (exists t, w_responses w (w_spec w ms) = w_responses w (w_written w s) ++ t) /\
  (exists t, w_diagnostics w (w_spec w ms) = w_diagnostics w (w_written w s) ++ t).
Proof. exact w_prefix. Qed.
Print Assumptions C20_prefix.

(* four different schedules, the same two streams; under the fair one the reader's own error
   response 101 overtakes the diagnostics of the change before it (the merge order of the two
   streams is not fixed), under the slow reader the output is the sequential one frame by frame *)
Example C20_refines_ex :
  w_quiescent c20_w (w_run c20_w c20_fair burst)
  /\ w_quiescent c20_w (w_run c20_w c20_greedy burst)
  /\ w_quiescent c20_w (w_run c20_w c20_lazy burst)
  /\ w_written c20_w (w_run c20_w c20_fair burst)
     = [ ODiag 1 [10]; ODiag 2 [20]; ODiag 1 [10; 11]; OResp 100 [10; 11]; OResp 101 [7]; ODiag 2 [20; 21];
         OResp 102 [20; 21]; OResp 103 []; OResp 104 [20; 21] ]
  /\ w_quiescent c20_w (w_run c20_w c20_slow_reader burst)
  /\ w_written c20_w (w_run c20_w c20_slow_reader burst) = w_spec c20_w burst
  /\ w_written c20_w (w_run c20_w c20_slow_reader burst) <> w_written c20_w (w_run c20_w c20_fair burst)
  /\ w_responses c20_w (w_written c20_w (w_run c20_w c20_greedy burst)) = w_responses c20_w (w_spec c20_w burst)
  /\ w_diagnostics c20_w (w_written c20_w (w_run c20_w c20_greedy burst)) = w_diagnostics c20_w (w_spec c20_w burst)
  /\ w_responses c20_w (w_written c20_w (w_run c20_w c20_lazy burst)) = w_responses c20_w (w_spec c20_w burst)
  /\ w_diagnostics c20_w (w_written c20_w (w_run c20_w c20_lazy burst)) = w_diagnostics c20_w (w_spec c20_w burst)
  /\ w_spec c20_w burst
     = [ ODiag 1 [10]; ODiag 2 [20]; ODiag 1 [10; 11]; OResp 100 [10; 11]; ODiag 2 [20; 21]; OResp 101 [7];
         OResp 102 [20; 21]; OResp 103 []; OResp 104 [20; 21] ].
Proof. vm_compute. repeat split; try reflexivity. discriminate. Qed.

(* a schedule stopped half-way has written a strict prefix of each stream *)
Example C20_prefix_ex :
  let s := w_run c20_w (rounds 6 [Reader; BrokerP; Responder]) burst in
  ~ w_quiescent c20_w s
  /\ w_written c20_w s = [ODiag 1 [10]; ODiag 2 [20]; ODiag 1 [10; 11]]
  /\ w_responses c20_w (w_spec c20_w burst)
     = w_responses c20_w (w_written c20_w s) ++ [OResp 100 [10; 11]; OResp 101 [7]; OResp 102 [20; 21]; OResp 103 []; OResp 104 [20; 21]]
  /\ w_diagnostics c20_w (w_spec c20_w burst) = w_diagnostics c20_w (w_written c20_w s) ++ [ODiag 2 [20; 21]].
Proof. vm_compute. split; [intros (H & _); discriminate H|]. repeat split; reflexivity. Qed.

(* ------------------------------------------------------------------------------------------ *)
(* 2. Responses keep request order; each request is answered exactly once.                      *)

Theorem C20_response_order : forall (w : world) (ms : list (w_msg w)) (sched : list proc),
  let s := w_run w sched ms in
  w_quiescent w s -> w_out_ids w (w_written w s) = w_req_ids w ms.
Proof. exact w_response_order. Qed.
Print Assumptions C20_response_order.

Theorem C20_response_order_prefix : forall (w : world) (ms : list (w_msg w)) (sched : list proc),
  exists t, w_req_ids w ms = w_out_ids w (w_written w (w_run w sched ms)) ++ t.
Proof. exact w_response_order_prefix. Qed.
Print Assumptions C20_response_order_prefix.

Example C20_response_order_ex :
  w_req_ids c20_w burst = [100; 101; 102; 103; 104]%N
  /\ w_out_ids c20_w (w_written c20_w (w_run c20_w c20_greedy burst)) = [100; 101; 102; 103; 104]%N
  /\ w_out_ids c20_w (w_written c20_w (w_run c20_w (rounds 9 [Reader; BrokerP; Responder]) burst)) = [100]%N.
Proof. vm_compute. repeat split; reflexivity. Qed.

(* ------------------------------------------------------------------------------------------ *)
(* 3. Read-your-writes: under every schedule the response to a request is computed from the
      document map produced by exactly the messages that precede the request - every earlier
      notification has been applied, no later one has.                                          *)

Theorem C20_read_your_writes : forall (w : world) (pre : list (w_msg w)) (id : N) (r : w_req w)
                                      (post : list (w_msg w)) (sched : list proc),
  let s := w_run w sched (pre ++ CReq id r :: post) in
  w_quiescent w s ->
  w_responses w (w_written w s)
  = w_responses w (w_spec w pre)
    ++ OResp id (w_answer w r (w_lookup w (w_docs_after w pre) (w_req_uri w r)))
    :: w_responses w (w_spec_from w (w_docs_after w pre) post).
Proof. exact w_read_your_writes. Qed.
Print Assumptions C20_read_your_writes.

(* request 102 for document 2 sits behind `CChange 2 [21]` and in front of nothing else for 2 *)
Example C20_read_your_writes_ex :
  let pre := firstn 6 burst in
  burst = pre ++ CReq 102%N 2%N :: skipn 7 burst
  /\ w_docs_after c20_w pre = [(2, [20; 21]); (1, [10; 11])]%N
  /\ w_answer c20_w 2%N (w_lookup c20_w (w_docs_after c20_w pre) 2%N) = [20; 21]%N
  /\ In (OResp 102%N [20; 21]%N) (w_written c20_w (w_run c20_w c20_lazy burst)).
Proof. vm_compute. repeat split; try reflexivity. do 6 right. left. reflexivity. Qed.

(* ------------------------------------------------------------------------------------------ *)
(* 4. The last diagnostics published for a document describe its final content; and no
      diagnostics at all without the client capability.                                         *)

Theorem C20_last_diagnostics : forall (w : world) (u : w_uri w) (d : w_dstate w) (ms : list (w_msg w))
                                      (sched : list proc),
  w_uri_ok w -> w_send_diagnostics w = true ->
  let s := w_run w sched ms in
  w_quiescent w s -> w_lookup w (w_store w s) u = Some d ->
  exists pre, w_diags_of w u (w_written w s) = pre ++ [ODiag u (w_diag w u d)].
Proof. exact w_last_diag. Qed.
Print Assumptions C20_last_diagnostics.

(* at quiescence the broker's map is the sequential one, so "final content" is unambiguous *)
Theorem C20_store_final : forall (w : world) (ms : list (w_msg w)) (sched : list proc),
  let s := w_run w sched ms in
  w_quiescent w s -> w_store w s = w_docs_after w ms.
Proof. exact w_store_final. Qed.
Print Assumptions C20_store_final.

Theorem C20_caps : forall (w : world) (ms : list (w_msg w)) (sched : list proc),
  w_send_diagnostics w = false -> w_diagnostics w (w_written w (w_run w sched ms)) = [].
Proof. exact w_caps. Qed.
Print Assumptions C20_caps.

Example C20_last_diagnostics_ex :
  let s := w_run c20_w c20_greedy burst in
  w_uri_ok c20_w /\ w_send_diagnostics c20_w = true /\ w_quiescent c20_w s
  /\ w_store c20_w s = [(2, [20; 21])]%N
  /\ w_lookup c20_w (w_store c20_w s) 2%N = Some [20; 21]%N
  /\ w_diags_of c20_w 2%N (w_written c20_w s) = [ODiag 2%N [20]%N] ++ [ODiag 2%N (w_diag c20_w 2%N [20; 21]%N)].
Proof. intros s. split; [apply demo_uri_ok|]. vm_compute. repeat split; reflexivity. Qed.

Example C20_caps_ex :
  let s := w_run c20_w_nodiag c20_fair burst in
  w_send_diagnostics c20_w_nodiag = false /\ w_quiescent c20_w_nodiag s
  /\ w_written c20_w_nodiag s = [OResp 100 [10; 11]; OResp 101 [7]; OResp 102 [20; 21]; OResp 103 []; OResp 104 [20; 21]]%N.
Proof. vm_compute. repeat split; reflexivity. Qed.

(* ------------------------------------------------------------------------------------------ *)
(* 5. Isolation: what the server knows and says about a document depends only on the
      notifications addressed to that document ([w_about w u] keeps the didOpen / didChange /
      didClose of [u]).  URIs are compared with [w_uri_eqb]; two URIs differing only in their
      scheme are two different URIs.                                                            *)

Theorem C20_isolation : forall (w : world) (u : w_uri w) (ms : list (w_msg w)),
  w_uri_ok w ->
  w_lookup w (w_docs_after w ms) u = w_lookup w (w_docs_after w (filter (w_about w u) ms)) u.
Proof. exact w_isolation. Qed.
Print Assumptions C20_isolation.

Theorem C20_isolation_response : forall (w : world) (pre : list (w_msg w)) (id : N) (r : w_req w)
                                        (post : list (w_msg w)) (sched : list proc),
  w_uri_ok w ->
  let s := w_run w sched (pre ++ CReq id r :: post) in
  w_quiescent w s ->
  w_responses w (w_written w s)
  = w_responses w (w_spec w pre)
    ++ OResp id (w_answer w r (w_lookup w (w_docs_after w (filter (w_about w (w_req_uri w r)) pre)) (w_req_uri w r)))
    :: w_responses w (w_spec_from w (w_docs_after w pre) post).
Proof. exact w_isolation_response. Qed.
Print Assumptions C20_isolation_response.

Theorem C20_isolation_diagnostics : forall (w : world) (u : w_uri w) (ms : list (w_msg w)) (sched : list proc),
  w_uri_ok w ->
  let s := w_run w sched ms in
  w_quiescent w s ->
  w_diags_of w u (w_written w s) = w_diagnostics w (w_spec w (filter (w_about w u) ms)).
Proof. exact w_isolation_diag. Qed.
Print Assumptions C20_isolation_diagnostics.

Example C20_isolation_ex :
  filter (w_about c20_w 2%N) burst = [COpen 2 [20]; CChange 2 [21]]%N
  /\ w_lookup c20_w (w_docs_after c20_w burst) 2%N = Some [20; 21]%N
  /\ w_lookup c20_w (w_docs_after c20_w [COpen 2 [20]; CChange 2 [21]]%N) 2%N = Some [20; 21]%N
  /\ w_diags_of c20_w 2%N (w_written c20_w (w_run c20_w c20_lazy burst)) = [ODiag 2 [20]; ODiag 2 [20; 21]]%N
  /\ w_spec c20_w [COpen 2 [20]; CChange 2 [21]]%N = [ODiag 2 [20]; ODiag 2 [20; 21]]%N.
Proof. vm_compute. repeat split; reflexivity. Qed.

(* ------------------------------------------------------------------------------------------ *)
(* 6. A closed document is forgotten until it is reopened, and a reopened document starts from
      the reopened text alone.                                                                  *)

Theorem C20_closed_until_open : forall (w : world) (m : w_docs w) (ms ms' : list (w_msg w)) (u : w_uri w),
  w_uri_ok w ->
  (forall p, ~ In (COpen u p) ms') -> w_lookup w (w_docs_from w m (ms ++ CClose u :: ms')) u = None.
Proof. exact w_closed_until_open. Qed.
Print Assumptions C20_closed_until_open.

Theorem C20_closed_response : forall (w : world) (pre mid : list (w_msg w)) (id : N) (r : w_req w)
                                     (post : list (w_msg w)) (sched : list proc),
  w_uri_ok w ->
  (forall p, ~ In (COpen (w_req_uri w r) p) mid) ->
  let ms0 := pre ++ CClose (w_req_uri w r) :: mid in
  let s := w_run w sched (ms0 ++ CReq id r :: post) in
  w_quiescent w s ->
  w_responses w (w_written w s)
  = w_responses w (w_spec w ms0) ++ OResp id (w_answer w r None)
    :: w_responses w (w_spec_from w (w_docs_after w ms0) post).
Proof. exact w_closed_response. Qed.
Print Assumptions C20_closed_response.

Theorem C20_reopen_fresh : forall (w : world) (m : w_docs w) (pre : list (w_msg w)) (u : w_uri w) (p : w_payload w)
                                  (post : list (w_msg w)),
  w_uri_ok w ->
  w_lookup w (w_docs_from w m (pre ++ COpen u p :: post)) u
  = w_lookup w (w_docs_after w (COpen u p :: filter (w_about w u) post)) u.
Proof. exact w_reopen_fresh. Qed.
Print Assumptions C20_reopen_fresh.

(* document 1 is closed by the 8th message; request 103 and the change that follows find nothing;
   reopening it with [30] forgets [10; 11] *)
Example C20_closed_ex :
  w_lookup c20_w (w_docs_after c20_w (firstn 8 burst)) 1%N = None
  /\ w_lookup c20_w (w_docs_after c20_w burst) 1%N = None
  /\ In (OResp 103%N (w_answer c20_w 1%N None)) (w_written c20_w (w_run c20_w c20_greedy burst))
  /\ w_answer c20_w 1%N None = []
  /\ w_lookup c20_w (w_docs_after c20_w (burst ++ [COpen 1 [30]; CChange 1 [31]]%N)) 1%N = Some [30; 31]%N
  /\ w_lookup c20_w (w_docs_after c20_w [COpen 1 [30]; CChange 1 [31]]%N) 1%N = Some [30; 31]%N.
Proof. vm_compute. repeat split; try reflexivity. do 7 right. left. reflexivity. Qed.

(* ------------------------------------------------------------------------------------------ *)
(* 7. No deadlock, termination.  As long as work is left some process can move (the wait-for
      chain reader -> broker -> responder has no cycle: the responder never waits for anybody),
      every schedule can be extended to one that finishes all work, and no schedule fires more
      than six steps per client message - so a scheduler that keeps running enabled tasks reaches
      quiescence after at most 6 * |ms| steps.                                                  *)

Theorem C20_no_deadlock : forall (w : world) (ms : list (w_msg w)) (sched : list proc),
  (0 < w_cap w)%nat ->
  let s := w_run w sched ms in
  ~ w_quiescent w s -> exists p s', w_step w p s = Some s'.
Proof. exact w_no_deadlock. Qed.
Print Assumptions C20_no_deadlock.

Theorem C20_terminates : forall (w : world) (ms : list (w_msg w)) (sched0 : list proc),
  (0 < w_cap w)%nat ->
  exists sched, w_quiescent w (w_run w (sched0 ++ sched) ms).
Proof. exact w_terminates_any. Qed.
Print Assumptions C20_terminates.

Theorem C20_bounded_work : forall (w : world) (ms : list (w_msg w)) (sched : list proc),
  (w_fired w sched ms <= 6 * length ms)%nat.
Proof. exact w_fired_bound. Qed.
Print Assumptions C20_bounded_work.

(* with capacity 1 every send blocks until the receiver has taken the previous item; still the
   burst is processed completely; 39 steps fire (bound: 72); the reader alone gets stuck after
   one send, and the broker can then move *)
Example C20_no_deadlock_ex :
  let w1 := demo_world true 1 in
  (0 < w_cap w1)%nat
  /\ w_quiescent w1 (w_run w1 (rounds 60 [Reader; BrokerP; Responder]) burst)
  /\ w_fired w1 (rounds 60 [Reader; BrokerP; Responder]) burst = 39%nat
  /\ (6 * length burst = 72)%nat
  /\ w_fired w1 (rounds 10 [Reader]) burst = 1%nat
  /\ w_step w1 Reader (w_run w1 (rounds 10 [Reader]) burst) = None
  /\ w_step w1 BrokerP (w_run w1 (rounds 10 [Reader]) burst) <> None.
Proof. vm_compute. repeat split; try reflexivity; try lia. discriminate. Qed.
