(* C14 - hover and signature help (lsp4spl/src/features/hover.rs, signature_help.rs, the Display
   implementations of spl_frontend/src/table.rs; modelled in Model/Hover.v, Model/SigHelp.v).
   Statements only; the proofs are in Proofs/HoverProofs.v, Proofs/HoverValid.v and Proofs/SigHelpValid*.v.

   Proved here, for ALL documents (valid program or not):
     C14_hover_answer         shape of every hover answer: an identifier token under the cursor, exactly
                              its range, code block of the Display of an entry named like it + doc block
     C14_hover_entry          which table that entry comes from (local table of the context procedure first,
                              unless the identifier stands in a global position; then the global table)
     C14_global_position      what DocumentCursor::is_global_position computes: the last non-comment token
                              in front of the first token under the cursor is `proc`, `type`, `:` or `of`
     C14_hover_none(_first)   no identifier under the cursor => no answer
     C14_hover_total          no panic under the explicit predicate [cursor_pre]
     C14_hover_at             hover computed on any document whose tokens are in text order
     C14_sighelp_answer       shape of every signature-help answer: a call statement of the tree around
                              the cursor, the callee's procedure entry, one label per parameter
     C14_sighelp_param_count  one parameter entry per parameter
     C14_sighelp_active       active parameter = number of commas of the call statement in front of the
                              cursor (documents built by AnalyzedSource::new)
     C14_count_commas         the loop-with-break of get_active_param on a slice in text order
   Proved for every VALID program in every layout (the hover half of the functional property):
     C14_hover_valid          for every abstract program p of the grammar whose mandated tree is well-typed
                              (Spec/Typing.v), every text that lexes to p's tokens, every identifier
                              occurrence and every cursor position inside it: hover = Display of the entry
                              the occurrence is bound to under SPL scoping + its documentation block, over
                              exactly the identifier's range
     C14_hover_valid_text     the same for every rendering (Proofs/RenderProofs.v) of such a program
   Proved for every VALID program in every layout (the signature-help half of the functional property;
   Proofs/SigHelpValidSites.v, SigHelpValidModel.v, SigHelpValid.v, SigHelpValidActive.v):
     C14_sighelp_valid        for every abstract program p of the grammar whose mandated tree is well-typed, every
                              text that lexes to p's tokens, every call statement `f(e1, ..., en)` of the tree
                              (located by the grammar: [program_sites]) and every cursor index from the end of its
                              `(` to the start of its `)`: the answer is the signature of THE procedure entry
                              lookup G f - label, documentation block, one label per declared parameter, as many
                              as the call has arguments - with active parameter = the number of Comma tokens of the
                              statement that start before the cursor
     C14_sighelp_valid_arg    ... argument by argument: from the end of separator j (`(` or the j-th comma) to the
                              start of separator j + 1 (the next comma or `)`) the active parameter is j
     C14_sighelp_valid_stmt   the interval on which the model really answers: the whole text range of the call
                              statement (leading comments, callee name, `)` and `;` included; the quirk of
                              signature_help.rs documented in Model/SigHelp.v)
     C14_sighelp_valid_none   no call statement's text range contains the cursor => no answer
     C14_sighelp_valid_full   [C14_sighelp_full_statement] with "document without diagnostics" replaced by "layout
                              of a well-typed abstract program"
     C14_sighelp_site_tokens, C14_sighelp_site_commas   what the tokens at a call site are: the slice of the
                              statement, its `(`, `)`, `;`; its commas are the separators of its own arguments
     C14_sighelp_valid_text   the same for every rendering of such a program
   PROVED for every DOCUMENT WITHOUT DIAGNOSTICS (end of this file; Proofs/CompleteFeatures.v):
     C14_hover_full           [C14_hover_full_statement] itself, and
     C14_sighelp_full         [C14_sighelp_full_statement] itself: their hypothesis [no_diagnostics d] (Proofs/HoverProofs.v)
                              says that errors() is empty AND that no token carries a lexical error (lexical errors -
                              integer literal above u32, `0x` without digits, unterminated character literal - are
                              attached to tokens and never published, so the second half is not implied by the
                              first).  On top of C14_hover_valid / C14_sighelp_valid_full this is the COMPLETENESS of
                              the front end (Proofs/CompleteFront.v [front_end_complete], [clean_doc_valid]: no
                              diagnostic => the text is a layout of a well-typed abstract program and the document
                              holds the mandated tree and an accepted table)
     C14_hover_clean          the same in the wording [clean_doc t d] of Spec/Nav.v (the one of C12_full / C13_full)
     C14_sighelp_clean, C14_sighelp_clean_none   C14_sighelp_valid / _valid_arg / _valid_none for every document without
                              diagnostics; p is ANY derivation of the document's token vector in the grammar (it only
                              serves to name the call sites; C14_clean_doc_derivable: one exists)
   NOT true (finding, kept as the known quirk of signature_help.rs): "outside the parentheses of every call
   => no answer" - the answer is also given on the callee name, in the comments in front of the statement and
   between `)` and `;` (C14_sighelp_valid_stmt; C14_sighelp_quirk_ex).
   History: before /repo b909979 the hover half was REFUTED by the model (hover looked every identifier of a
   procedure up in the local table first, also the procedure's own name and type names: defect
   C14-hover-local-before-global, repaired; witnesses in C14_global_position_ex and corpus/C14). *)
From Coq Require Import String.
From Spl Require Import Props.C03.
From Spl Require Import Proofs.GrammarProofs Spec.Typing Proofs.TypingProofs Proofs.RenderProofs Proofs.PipelineText.
From Spl Require Import Model.Hover Model.SigHelp Model.Fold Proofs.HoverProofs Proofs.HoverValid.
From Spl Require Import Proofs.SigHelpValidSites Proofs.SigHelpValidModel Proofs.SigHelpValid Proofs.SigHelpValidActive.
Local Open Scope string_scope.
Local Open Scope list_scope.
Local Open Scope N_scope.

(* line 0 "// adds" / 1 "proc add(ref a: int, b: int) {" / 2 "  // tmp" / 3 "  var t: int;" /
   4 "  t := a; add(t, // c" / 5 " b);" / 6 "}" / 7 "proc main() {}" *)
Definition c14_text : text :=
  str "// adds" ++ [10] ++ str "proc add(ref a: int, b: int) {" ++ [10] ++ str "  // tmp" ++ [10]
  ++ str "  var t: int;" ++ [10] ++ str "  t := a; add(t, // c" ++ [10] ++ str " b);" ++ [10] ++ str "}" ++ [10]
  ++ str "proc main() {}".

(* ---- hover ---- *)

Theorem C14_hover_answer : forall (d : doc) line col v r,
  hover d line col = ROk (Some (v, r)) ->
  let index := get_insertion_index line col (d_text d) in
  exists t name ctx e,
    token_at (d_toks d) index = Some t /\ In t (d_toks d) /\ tk t = Ident name /\
    ts t <= index /\ index < te t /\
    r = (as_position (ts t) (d_text d), as_position (te t) (d_text d)) /\
    hover_entry d ctx (global_position_at (d_toks d) index) name = Some e /\ v = hover_text e.
Proof. exact hover_inv. Qed.
Print Assumptions C14_hover_answer.

Example C14_hover_answer_ex :
  match new_doc_res c14_text with
  | ODone d =>
      hover d 1 6 = ROk (Some (str "```spl" ++ [10] ++ str "proc add(ref a: int, b: int)" ++ [10] ++ str "```"
                               ++ [10] ++ str "---" ++ [10] ++ str "adds" ++ [10], ((1, 5), (1, 8))))
      /\ hover d 4 7 = ROk (Some (str "```spl" ++ [10] ++ str "ref a: int" ++ [10] ++ str "```", ((4, 7), (4, 8))))
      /\ hover d 3 6 = ROk (Some (str "```spl" ++ [10] ++ str "t: int" ++ [10] ++ str "```"
                                  ++ [10] ++ str "---" ++ [10] ++ str "tmp" ++ [10], ((3, 6), (3, 7))))
  | _ => False
  end.
Proof. vm_compute. repeat split; reflexivity. Qed.

Theorem C14_hover_entry : forall (d : doc) ctx gp name e,
  hover_entry d ctx gp name = Some e ->
  match ctx with
  | GTypeE _ => exists g, lookup (d_table d) name = Some g /\ e = entry_of_g g
  | GProcE p =>
      (gp = false /\ exists l, lookup (pe_local p) name = Some l /\ e = entry_of_l l)
      \/ ((gp = true \/ lookup (pe_local p) name = None) /\
          exists g, lookup (d_table d) name = Some g /\ e = entry_of_g g)
  end.
Proof. exact hover_entry_inv. Qed.
Print Assumptions C14_hover_entry.

(* is_global_position: the last non-comment token in front of the FIRST token under the cursor is
   `proc`, `type`, `:` or `of` *)
Theorem C14_global_position : forall toks index t,
  token_at toks index = Some t ->
  exists pre post, toks = pre ++ t :: post /\
    forallb (fun x => negb (in_range (ts x, te x) index)) pre = true /\
    global_position_at toks index = global_kind (prev_kind None pre).
Proof. exact global_position_spec. Qed.
Print Assumptions C14_global_position.

(* the two witnesses of the repaired defect C14-hover-local-before-global (b909979): the name of a
   procedure that declares a local of the same name; a type name in a parameter / variable declaration
   of a procedure that declares a local of that name; and the local uses next to them *)
Example C14_global_position_ex :
  match new_doc_res (str "proc k() { var k: int; k := 1; }" ++ [10] ++ str "proc main() {}"),
        new_doc_res (str "type t = int;" ++ [10] ++ str "proc p(a: t) { var t: t; t := a; }" ++ [10] ++ str "proc main() {}") with
  | ODone d1, ODone d2 =>
      let code s := str "```spl" ++ [10] ++ str s ++ [10] ++ str "```" in
      hover d1 0 5 = ROk (Some (code "proc k()", ((0, 5), (0, 6))))
      /\ hover d1 0 15 = ROk (Some (code "k: int", ((0, 15), (0, 16))))
      /\ hover d1 0 23 = ROk (Some (code "k: int", ((0, 23), (0, 24))))
      /\ hover d2 1 10 = ROk (Some (code "int", ((1, 10), (1, 11))))
      /\ hover d2 1 19 = ROk (Some (code "t: int", ((1, 19), (1, 20))))
      /\ hover d2 1 22 = ROk (Some (code "int", ((1, 22), (1, 23))))
      /\ hover d2 1 25 = ROk (Some (code "t: int", ((1, 25), (1, 26))))
  | _, _ => False
  end.
Proof. vm_compute. repeat split; reflexivity. Qed.

Theorem C14_hover_none : forall (d : doc) line col,
  (forall t name, In t (d_toks d) -> tk t = Ident name ->
     in_range (ts t, te t) (get_insertion_index line col (d_text d)) = false) ->
  forall x, hover d line col <> ROk (Some x).
Proof. exact hover_none. Qed.
Print Assumptions C14_hover_none.

Theorem C14_hover_none_first : forall (d : doc) line col,
  (forall t, token_at (d_toks d) (get_insertion_index line col (d_text d)) = Some t ->
             forall name, tk t <> Ident name) ->
  forall x, hover d line col <> ROk (Some x).
Proof. exact hover_none_first. Qed.
Print Assumptions C14_hover_none_first.

(* the keyword `proc`, the comment, white space, the end of the identifier `add`, beyond the text *)
Example C14_hover_none_ex :
  match new_doc_res c14_text with
  | ODone d => map (fun p => hover d (fst p) (snd p)) [(1, 0); (0, 3); (1, 4); (1, 8); (9, 0)]
               = [ROk None; ROk None; ROk None; ROk None; ROk None]
  | _ => False
  end.
Proof. vm_compute. reflexivity. Qed.

Theorem C14_hover_total : forall (d : doc) line col,
  cursor_pre d = true -> exists r, hover d line col = ROk r.
Proof. exact hover_total. Qed.
Print Assumptions C14_hover_total.

Example C14_hover_total_ex :
  match new_doc_res c14_text, new_doc_res (str "proc ( { f(1, ; type = ;") with
  | ODone d1, ODone d2 => cursor_pre d1 = true /\ cursor_pre d2 = true /\ hover d2 0 9 = ROk None
  | _, _ => False
  end.
Proof. vm_compute. repeat split; reflexivity. Qed.

(* ---- signature help ---- *)

Theorem C14_sighelp_answer : forall (d : doc) line col h,
  signature_help d line col = ROk (Some h) ->
  let index := get_insertion_index line col (d_text d) in
  exists pd pd_off name inf off pe sl,
    In (GProc pd, pd_off) (pg_decls (d_ast d)) /\
    In (name, inf, off) (calls_of_stmts (pd_stmts pd) pd_off) /\
    call_contains (d_toks d) index (name, inf, off) /\
    lookup (d_table d) (id_val name) = Some (GProcE pe) /\
    slice (d_toks d) (shift_range (info_range inf) off) = ROk sl /\
    sh_label h = show_pentry pe /\
    sh_doc h = sig_documentation (pe_doc pe) /\
    sh_params h = map show_ventry (pe_params pe) /\
    sh_active h = active_of (pe_params pe) sl index.
Proof. exact sighelp_inv. Qed.
Print Assumptions C14_sighelp_answer.

Theorem C14_sighelp_param_count : forall (d : doc) line col h,
  signature_help d line col = ROk (Some h) ->
  exists name pe, lookup (d_table d) (id_val name) = Some (GProcE pe) /\
                  length (sh_params h) = length (pe_params pe).
Proof. exact sighelp_param_count. Qed.
Print Assumptions C14_sighelp_param_count.

Theorem C14_sighelp_active : forall (t : text) (d : doc) line col h,
  new_doc_res t = ODone d ->
  signature_help d line col = ROk (Some h) ->
  exists name inf off pe sl,
    lookup (d_table d) (id_val name) = Some (GProcE pe) /\
    slice (d_toks d) (shift_range (info_range inf) off) = ROk sl /\
    sh_active h = match pe_params pe with
                  | [] => None
                  | _ :: _ => Some (commas_before sl (get_insertion_index line col t))
                  end.
Proof. exact sighelp_active_new_doc. Qed.
Print Assumptions C14_sighelp_active.

Theorem C14_count_commas : forall sl index,
  toks_sorted sl = true -> count_commas sl index 0 = commas_before sl index.
Proof. exact count_commas_spec. Qed.
Print Assumptions C14_count_commas.

(* after `(`, before the comma, after the comma (inside the comment), next line, before `)`;
   outside the call statement and outside every procedure: no answer *)
Example C14_sighelp_ex :
  match new_doc_res c14_text with
  | ODone d =>
      map (fun p => match signature_help d (fst p) (snd p) with
                    | ROk (Some h) => Some (sh_label h, sh_params h, sh_active h)
                    | _ => None
                    end) [(4, 14); (4, 15); (4, 16); (5, 0); (5, 2)]
      = (let s := (str "proc add(ref a: int, b: int)", [str "ref a: int"; str "b: int"]) in
         [Some (s, Some 0); Some (s, Some 0); Some (s, Some 1); Some (s, Some 1); Some (s, Some 1)])
      /\ signature_help d 4 3 = ROk None /\ signature_help d 7 5 = ROk None /\ signature_help d 6 1 = ROk None
  | _ => False
  end.
Proof. vm_compute. repeat split; reflexivity. Qed.

(* ---- the full property ---- *)

(* hover: for every identifier occurrence (by syntactic role: Proofs/HoverProofs.v [program_occs],
   [binding]) of every document without diagnostics, at every column of the identifier *)
Definition C14_hover_full_statement : Prop := hover_full_statement.

(* signature help: for every call statement of every document without diagnostics, at every cursor
   index between its parentheses *)
Definition C14_sighelp_full_statement : Prop := sighelp_full_statement.

(* ---- the hover half, PROVED for every valid program in every layout ----
   p ranges over the abstract programs of the grammar (Spec/Grammar.v; a comment slot in front of every
   token, [prog_ok] = the dangling-else discipline), G over the global tables that the declarative static
   semantics (Spec/Typing.v [well_typed]) accepts for the tree the grammar mandates, t over the texts
   that lex to p's token kinds, i.e. over all layouts of p.  For every identifier occurrence of the tree -
   (owner, (k, x, sc)): token number k, spelling x, inside the declaration named owner, scope sc by
   syntactic role: the name of a type/procedure declaration, a name inside a type expression and a callee
   are global, parameter/variable names and variables in statements are resolved in the procedure first -
   and every cursor position inside that token, hover answers with the Display of the entry the occurrence
   is BOUND to ([binding]: SPL scoping on the tables of the document) + its documentation block, over
   exactly the token's range.  This is [C14_hover_full_statement] with "document without diagnostics"
   replaced by "layout of a well-typed abstract program" (the formulation of C03_no_false_positive and
   C17_valid); the former follows from it by the completeness of the front end (no diagnostic
   => the text is a layout of a well-typed abstract program): C14_hover_full at the end of this file. *)
Theorem C14_hover_valid : forall (p : aprog) (G : gtable) (t : text) (toks : list token) (d : doc),
  prog_ok p = true -> well_typed (expected p) G ->
  lex t = Some toks -> map tk toks = flatten p ++ [Eof] ->
  new_doc_res t = ODone d ->
  forall owner k x sc, In (owner, (k, x, sc)) (program_occs (expected p)) ->
  forall tok line col, nth_error toks k = Some tok ->
    ts tok <= get_insertion_index line col t -> get_insertion_index line col t < te tok ->
    exists e, binding d owner sc x = Some e /\
      hover d line col = ROk (Some (hover_text e, (as_position (ts tok) t, as_position (te tok) t))).
Proof. exact hover_valid. Qed.
Print Assumptions C14_hover_valid.

(* ... from text: every rendering of a valid abstract program (any white space gaps satisfying gaps_ok,
   comments in any token gap; Proofs/RenderProofs.v, Proofs/PipelineText.v, explained in Props/C04.v)
   is such a layout, and the analysis never fails on it *)
Theorem C14_hover_valid_text : forall (p : aprog) (G : gtable) gaps (t : text),
  prog_ok p = true -> aprog_valid p = true -> gaps_ok (flatten p) gaps -> render_kinds (flatten p) gaps = Some t ->
  well_typed (expected p) G ->
  exists toks d, lex t = Some toks /\ map tk toks = flatten p ++ [Eof] /\ new_doc_res t = ODone d /\
  forall owner k x sc, In (owner, (k, x, sc)) (program_occs (expected p)) ->
  forall tok line col, nth_error toks k = Some tok ->
    ts tok <= get_insertion_index line col t -> get_insertion_index line col t < te tok ->
    exists e, binding d owner sc x = Some e /\
      hover d line col = ROk (Some (hover_text e, (as_position (ts tok) t, as_position (te tok) t))).
Proof.
  intros p G gaps t Hok Hv Hg Hr Hwt. destruct (text_layout_of p gaps t Hv Hg Hr) as [toks [Hl Hk]].
  exists toks, {| d_text := t; d_toks := toks; d_ast := expected p; d_table := G |}.
  assert (Hd : new_doc_res t = ODone {| d_text := t; d_toks := toks; d_ast := expected p; d_table := G |}).
  { destruct (no_false_positive_tree _ _ (expected_clean p) Hwt) as [Hb [Ha _]].
    unfold new_doc_res. now rewrite Hl, (roundtrip p toks Hok Hk), Hb, Ha. }
  repeat split; try assumption. now apply (hover_valid p G t toks).
Qed.
Print Assumptions C14_hover_valid_text.

(* hover computed on ANY document whose tokens are in text order: the cursor inside identifier token
   number k, the declaration find_decl returns, its table entry, the entry hover_entry finds with
   global_position = "the last non-comment token in front of token k is `proc`, `type`, `:` or `of`" *)
Theorem C14_hover_at : forall (d : doc) line col k tok x gd D ctx e,
  let index := get_insertion_index line col (d_text d) in
  toks_sorted (d_toks d) = true -> nth_error (d_toks d) k = Some tok -> tk tok = Ident x ->
  ts tok <= index -> index < te tok ->
  find_decl (d_toks d) index (pg_decls (d_ast d)) = ROk (Some (gd, D)) ->
  match gdecl_name gd with Some n => lookup (d_table d) (id_val n) | None => None end = Some ctx ->
  hover_entry d ctx (global_kind (prev_kind_k None (firstn k (map tk (d_toks d))))) x = Some e ->
  hover d line col = ROk (Some (hover_text e, (as_position (ts tok) (d_text d), as_position (te tok) (d_text d)))).
Proof. exact hover_at. Qed.
Print Assumptions C14_hover_at.

(* non-vacuity: the two witnesses of the repaired defect in one program, with a doc comment -
     type t = int;
     // doc
     proc k(a: t) { var k: t; var t: t; t := a; k := t; }
     proc main() {}
   the procedure k declares a variable k and a variable t named like the type of its parameter *)
Definition s_t : text := [116]. Definition s_k : text := [107].
Definition var_ (x : text) (ty : text) : avardecl :=
  {| v_c1 := c0; v_c2 := c0; v_x := x; v_c3 := c0; v_t := TName c0 ty; v_c4 := c0 |}.
Definition c14_p : aprog :=
  {| a_decls :=
       [ DType c0 c0 s_t c0 (TName c0 s_int) c0;
         DProc [str " doc"] c0 s_k c0 (Some (PVal c0 s_a c0 (TName c0 s_t), [])) c0 c0
           [ var_ s_k s_t; var_ s_t s_t ]
           (SCons (SAsg (nm s_t) c0 (e_f (FVar (nm s_a))) c0) (SCons (SAsg (nm s_k) c0 (e_f (FVar (nm s_t))) c0) SNil)) c0;
         DProc c0 c0 s_main c0 None c0 c0 [] SNil c0 ];
     a_ceof := c0 |}.
Definition c14_tree : program := Eval vm_compute in expected c14_p.
Definition c14_table : gtable := Eval vm_compute in match build_res c14_tree with ROk (_, g) => g | RFail _ => [] end.
Definition c14_valid_text : text :=
  str "type t = int;" ++ [10] ++ str "// doc" ++ [10] ++ str "proc k(a: t) { var k: t; var t: t; t := a; k := t; }" ++ [10]
  ++ str "proc main() {}".

Example C14_ex_well_typed : well_typed (expected c14_p) c14_table.
Proof.
  change (expected c14_p) with c14_tree. split.
  - unfold wf_program. eexists. split; [unfold c14_tree; cbn [pg_decls]; decls|].
    split; [vm_compute; reflexivity|]. eexists. split; vm_compute; reflexivity.
  - unfold wt_bodies, c14_tree. cbn [pg_decls].
    repeat (apply Forall_cons; [split; [unfold has_entry; cbn [fst pd_name]; try exact I; vm_compute; discriminate|]|]);
      [| | |apply Forall_nil].
    + exact I.
    + unfold wt_body. cbn [fst snd]. intros pe [name [Hn [Hl _]]]. injection Hn as <-. vm_compute in Hl. injection Hl as <-.
      cbn [pe_local pd_stmts]. st.
    + unfold wt_body. cbn [fst snd]. intros pe [name [Hn [Hl _]]]. injection Hn as <-. vm_compute in Hl. injection Hl as <-.
      cbn [pe_local pd_stmts]. st.
Qed.

Example C14_ex_layout :
  prog_ok c14_p = true /\
  match lex c14_valid_text with Some toks => map tk toks = flatten c14_p ++ [Eof] | None => False end.
Proof. vm_compute. split; reflexivity. Qed.

(* the theorem applied: token 7 (bytes 26..27) is the name `k` of the procedure (global: shows the procedure
   although it declares a variable k), token 17 (bytes 43..44) the type name `t` in `var k: t` (global: the type,
   although a variable t is declared) *)
Ltac in_list := vm_compute; repeat first [left; reflexivity | right].

Example C14_hover_valid_ex :
  match lex c14_valid_text, new_doc_res c14_valid_text with
  | Some toks, ODone d =>
      (forall line col, get_insertion_index line col c14_valid_text = 26%N ->
         hover d line col = ROk (Some (str "```spl" ++ [10] ++ str "proc k(a: int)" ++ [10] ++ str "```" ++ [10] ++ str "---"
                                       ++ [10] ++ str "doc" ++ [10], ((2, 5), (2, 6)))))
      /\ (forall line col, get_insertion_index line col c14_valid_text = 43%N ->
         hover d line col = ROk (Some (str "```spl" ++ [10] ++ str "int" ++ [10] ++ str "```", ((2, 22), (2, 23)))))
  | _, _ => False
  end.
Proof.
  destruct C14_ex_layout as [Hok Hl].
  destruct (lex c14_valid_text) as [toks|] eqn:El; [|contradiction].
  destruct (new_doc_res c14_valid_text) as [d|s|] eqn:Ed;
    [|vm_compute in Ed; discriminate Ed|vm_compute in Ed; discriminate Ed].
  pose proof (C14_hover_valid c14_p c14_table c14_valid_text toks d Hok C14_ex_well_typed El Hl Ed) as H.
  assert (Et : toks = match lex c14_valid_text with Some x => x | None => [] end) by now rewrite El.
  vm_compute in Et.
  split.
  - intros line col Hi.
    destruct (H (Some s_k) 7%nat s_k ScGlobal ltac:(in_list) {| tk := Ident s_k; ts := 26; te := 27; terr := [] |} line col
                ltac:(rewrite Et; reflexivity) ltac:(rewrite Hi; vm_compute; discriminate) ltac:(rewrite Hi; reflexivity)) as [e [Hb He]].
    rewrite He. assert (Ed' : d = match new_doc_res c14_valid_text with ODone x => x | _ => d end) by now rewrite Ed.
    rewrite Ed' in Hb. vm_compute in Hb. injection Hb as <-. vm_compute. reflexivity.
  - intros line col Hi.
    destruct (H (Some s_k) 17%nat s_t ScGlobal ltac:(in_list) {| tk := Ident s_t; ts := 43; te := 44; terr := [] |} line col
                ltac:(rewrite Et; reflexivity) ltac:(rewrite Hi; vm_compute; discriminate) ltac:(rewrite Hi; reflexivity)) as [e [Hb He]].
    rewrite He. assert (Ed' : d = match new_doc_res c14_valid_text with ODone x => x | _ => d end) by now rewrite Ed.
    rewrite Ed' in Hb. vm_compute in Hb. injection Hb as <-. vm_compute. reflexivity.
Qed.

(* ... and evaluated independently of the theorem: every identifier of the program *)
Example C14_hover_valid_eval :
  match new_doc_res c14_valid_text with
  | ODone d =>
      let code s := str "```spl" ++ [10] ++ str s ++ [10] ++ str "```" in
      let doc := [10] ++ str "---" ++ [10] ++ str "doc" ++ [10] in
      map (fun c => option_map fst (match hover d 2 c with ROk r => r | RFail _ => None end)) [5; 7; 10; 19; 22; 29; 32; 35; 40; 43; 48]
      = [Some (code "proc k(a: int)" ++ doc); Some (code "a: int"); Some (code "int"); Some (code "k: int"); Some (code "int");
         Some (code "t: int"); Some (code "int"); Some (code "t: int"); Some (code "a: int"); Some (code "k: int"); Some (code "t: int")]
      /\ option_map fst (match hover d 0 5 with ROk r => r | RFail _ => None end) = Some (code "int")
  | _ => False
  end.
Proof. vm_compute. split; reflexivity. Qed.

(* ---- the signature-help half, PROVED for every valid program in every layout ----
   p, G, t as for C14_hover_valid.  The call statements of the tree are located by the grammar:
   [program_sites p] (Proofs/SigHelpValid.v, SigHelpValidSites.v) lists (owner, (k, c)) - the call statement
   c = `c1 f c2 ( a c3 ) c4 ;` (c1..c4 comment slots, a the arguments) inside the procedure named owner, through
   blocks, branches and loops, whose first token (the first comment of c1, or the callee) is token number k.  Its
   `(` is token k + lp_pos c, its `)` token k + rp_pos c, its `;` token k + len (fl_call c) - 1, its separators
   (`(`, the commas, `)`) are the tokens k + q for q in [call_seps c]: all from lengths of flattened pieces.
   [sighelp_answer pe sl index] is the answer the property asks for: label = Display of the procedure entry pe,
   documentation block of pe, one parameter label per parameter of pe, active parameter = number of Comma tokens
   of the statement's token slice sl that start before the cursor index (None when pe has no parameter).
   Commas of nested calls do not exist: arguments are expressions, calls are statements
   (C14_sighelp_site_commas: the slice holds one comma less than the call has arguments). *)

(* where the tokens of a call site are *)
Theorem C14_sighelp_site_tokens : forall (p : aprog) (t : text) (toks : list token) owner k c,
  lex t = Some toks -> map tk toks = flatten p ++ [Eof] -> In (owner, (k, c)) (program_sites p) ->
  (k + length (fl_call c) <= length toks)%nat /\
  map tk (firstn (length (fl_call c)) (skipn k toks)) = fl_call c /\
  (exists first, nth_error toks k = Some first) /\
  (exists name, nth_error toks (k + length (k_c1 c)) = Some name /\ tk name = Ident (k_f c)) /\
  (exists lp, nth_error toks (k + lp_pos c) = Some lp /\ tk lp = LParen) /\
  (exists rp, nth_error toks (k + rp_pos c) = Some rp /\ tk rp = RParen) /\
  (exists last, nth_error toks (k + length (fl_call c) - 1) = Some last /\ tk last = Semic).
Proof. exact site_tokens. Qed.
Print Assumptions C14_sighelp_site_tokens.

Theorem C14_sighelp_site_commas : forall (p : aprog) (t : text) (toks : list token) owner k c,
  lex t = Some toks -> map tk toks = flatten p ++ [Eof] -> In (owner, (k, c)) (program_sites p) ->
  length (filter is_comma (firstn (length (fl_call c)) (skipn k toks))) = (nargs (k_a c) - 1)%nat.
Proof. exact site_commas. Qed.
Print Assumptions C14_sighelp_site_commas.

(* the sites ARE the call statements of the tree (the vocabulary of C14_sighelp_answer) *)
Theorem C14_sighelp_sites : forall (p : aprog) pd pd_off h,
  In (GProc pd, pd_off) (pg_decls (expected p)) -> In h (calls_of_stmts (pd_stmts pd) pd_off) ->
  exists owner x, In (owner, x) (program_sites p) /\ h = hit_of x /\ option_map id_val (pd_name pd) = Some owner.
Proof. exact program_calls. Qed.
Print Assumptions C14_sighelp_sites.

(* between the parentheses *)
Theorem C14_sighelp_valid : forall (p : aprog) (G : gtable) (t : text) (toks : list token) (d : doc),
  prog_ok p = true -> well_typed (expected p) G ->
  lex t = Some toks -> map tk toks = flatten p ++ [Eof] -> new_doc_res t = ODone d ->
  forall owner k c, In (owner, (k, c)) (program_sites p) ->
  exists pe, lookup G (k_f c) = Some (GProcE pe) /\ length (pe_params pe) = nargs (k_a c) /\
  forall lp rp line col,
    nth_error toks (k + lp_pos c) = Some lp -> nth_error toks (k + rp_pos c) = Some rp ->
    te lp <= get_insertion_index line col t -> get_insertion_index line col t <= ts rp ->
    signature_help d line col
    = ROk (Some (sighelp_answer pe (firstn (length (fl_call c)) (skipn k toks)) (get_insertion_index line col t))).
Proof. exact sighelp_valid. Qed.
Print Assumptions C14_sighelp_valid.

(* argument by argument: between separator j and separator j + 1 the active parameter is j *)
Theorem C14_sighelp_valid_arg : forall (p : aprog) (G : gtable) (t : text) (toks : list token) (d : doc),
  prog_ok p = true -> well_typed (expected p) G ->
  lex t = Some toks -> map tk toks = flatten p ++ [Eof] -> new_doc_res t = ODone d ->
  forall owner k c, In (owner, (k, c)) (program_sites p) ->
  exists pe, lookup G (k_f c) = Some (GProcE pe) /\ length (pe_params pe) = nargs (k_a c) /\
  forall j qa qb a b line col,
    nth_error (call_seps c) j = Some qa -> nth_error (call_seps c) (S j) = Some qb ->
    nth_error toks (k + qa) = Some a -> nth_error toks (k + qb) = Some b ->
    te a <= get_insertion_index line col t -> get_insertion_index line col t <= ts b ->
    signature_help d line col
    = ROk (Some {| sh_label := show_pentry pe; sh_doc := sig_documentation (pe_doc pe);
                   sh_params := map show_ventry (pe_params pe);
                   sh_active := match pe_params pe with [] => None | _ :: _ => Some (N.of_nat j) end |}).
Proof. exact sighelp_valid_arg. Qed.
Print Assumptions C14_sighelp_valid_arg.

(* the interval on which the model answers: the whole text range of the call statement *)
Theorem C14_sighelp_valid_stmt : forall (p : aprog) (G : gtable) (t : text) (toks : list token) (d : doc),
  prog_ok p = true -> well_typed (expected p) G ->
  lex t = Some toks -> map tk toks = flatten p ++ [Eof] -> new_doc_res t = ODone d ->
  forall owner k c, In (owner, (k, c)) (program_sites p) ->
  exists pe, lookup G (k_f c) = Some (GProcE pe) /\ length (pe_params pe) = nargs (k_a c) /\
  forall first last line col,
    nth_error toks k = Some first -> nth_error toks (k + length (fl_call c) - 1) = Some last ->
    ts first <= get_insertion_index line col t -> get_insertion_index line col t < te last ->
    signature_help d line col
    = ROk (Some (sighelp_answer pe (firstn (length (fl_call c)) (skipn k toks)) (get_insertion_index line col t))).
Proof. exact sighelp_valid_stmt. Qed.
Print Assumptions C14_sighelp_valid_stmt.

(* ... and nowhere else *)
Theorem C14_sighelp_valid_none : forall (p : aprog) (G : gtable) (t : text) (toks : list token) (d : doc),
  prog_ok p = true -> well_typed (expected p) G ->
  lex t = Some toks -> map tk toks = flatten p ++ [Eof] -> new_doc_res t = ODone d ->
  forall line col,
  (forall owner k c first last, In (owner, (k, c)) (program_sites p) ->
     nth_error toks k = Some first -> nth_error toks (k + length (fl_call c) - 1) = Some last ->
     get_insertion_index line col t < ts first \/ te last <= get_insertion_index line col t) ->
  signature_help d line col = ROk None.
Proof. exact sighelp_valid_none. Qed.
Print Assumptions C14_sighelp_valid_none.

(* [C14_sighelp_full_statement] with "document without diagnostics" replaced by "layout of a well-typed
   abstract program" *)
Theorem C14_sighelp_valid_full : forall (p : aprog) (G : gtable) (t : text) (toks : list token) (d : doc),
  prog_ok p = true -> well_typed (expected p) G ->
  lex t = Some toks -> map tk toks = flatten p ++ [Eof] -> new_doc_res t = ODone d ->
  forall pd pd_off name inf off sl lp rp,
    In (GProc pd, pd_off) (pg_decls (d_ast d)) ->
    In (name, inf, off) (calls_of_stmts (pd_stmts pd) pd_off) ->
    slice (d_toks d) (shift_range (info_range inf) off) = ROk sl ->
    find (is_kind LParen) sl = Some lp -> find (is_kind RParen) (rev sl) = Some rp ->
  forall line col, te lp <= get_insertion_index line col t -> get_insertion_index line col t <= ts rp ->
    exists pe, lookup (d_table d) (id_val name) = Some (GProcE pe) /\
      signature_help d line col =
        ROk (Some {| sh_label := show_pentry pe; sh_doc := sig_documentation (pe_doc pe);
                     sh_params := map show_ventry (pe_params pe);
                     sh_active := match pe_params pe with
                                  | [] => None
                                  | _ :: _ => Some (commas_before sl (get_insertion_index line col t))
                                  end |}).
Proof. exact sighelp_valid_full. Qed.
Print Assumptions C14_sighelp_valid_full.

(* ... from text: every rendering of a valid abstract program *)
Theorem C14_sighelp_valid_text : forall (p : aprog) (G : gtable) gaps (t : text),
  prog_ok p = true -> aprog_valid p = true -> gaps_ok (flatten p) gaps -> render_kinds (flatten p) gaps = Some t ->
  well_typed (expected p) G ->
  exists toks d, lex t = Some toks /\ map tk toks = flatten p ++ [Eof] /\ new_doc_res t = ODone d /\
  forall owner k c, In (owner, (k, c)) (program_sites p) ->
  exists pe, lookup G (k_f c) = Some (GProcE pe) /\ length (pe_params pe) = nargs (k_a c) /\
  (forall lp rp line col,
    nth_error toks (k + lp_pos c) = Some lp -> nth_error toks (k + rp_pos c) = Some rp ->
    te lp <= get_insertion_index line col t -> get_insertion_index line col t <= ts rp ->
    signature_help d line col
    = ROk (Some (sighelp_answer pe (firstn (length (fl_call c)) (skipn k toks)) (get_insertion_index line col t)))) /\
  (forall j qa qb a b line col,
    nth_error (call_seps c) j = Some qa -> nth_error (call_seps c) (S j) = Some qb ->
    nth_error toks (k + qa) = Some a -> nth_error toks (k + qb) = Some b ->
    te a <= get_insertion_index line col t -> get_insertion_index line col t <= ts b ->
    signature_help d line col
    = ROk (Some {| sh_label := show_pentry pe; sh_doc := sig_documentation (pe_doc pe);
                   sh_params := map show_ventry (pe_params pe);
                   sh_active := match pe_params pe with [] => None | _ :: _ => Some (N.of_nat j) end |})).
Proof.
  intros p G gaps t Hok Hv Hg Hr Hwt. destruct (text_layout_of p gaps t Hv Hg Hr) as [toks [Hl Hk]].
  exists toks, {| d_text := t; d_toks := toks; d_ast := expected p; d_table := G |}.
  assert (Hd : new_doc_res t = ODone {| d_text := t; d_toks := toks; d_ast := expected p; d_table := G |}).
  { destruct (no_false_positive_tree _ _ (expected_clean p) Hwt) as [Hb [Ha _]].
    unfold new_doc_res. now rewrite Hl, (roundtrip p toks Hok Hk), Hb, Ha. }
  repeat split; try assumption. intros owner k c Hin.
  destruct (sighelp_valid p G t toks _ Hok Hwt Hl Hk Hd owner k c Hin) as [pe [H1 [H2 H3]]].
  destruct (sighelp_valid_arg p G t toks _ Hok Hwt Hl Hk Hd owner k c Hin) as [pe' [H1' [_ H3']]].
  rewrite H1 in H1'. injection H1' as <-. exists pe. repeat split; assumption.
Qed.
Print Assumptions C14_sighelp_valid_text.

(* non-vacuity: a call in an else-branch, with a comment between its arguments -
     // adds
     proc add(ref a: int, b: int) { a := a + b; }
     proc main() { var t: int; t := 1; if (t < 2) { } else add(t, // c
      t * 2); }
   tokens 44 `add` (bytes 107..110), 45 `(` (110..111), 46 `t`, 47 `,` (112..113), 48 `// c` + line feed (114..119),
   49 `t` (120..121), 50 `*`, 51 `2`, 52 `)` (125..126), 53 `;` (126..127) *)
Definition s_b : text := [98].
Definition s_add : text := str "add".
Definition c14_q : aprog :=
  {| a_decls :=
       [ DProc [str " adds"] c0 s_add c0 (Some (PRef c0 c0 s_a c0 (TName c0 s_int), [(c0, PVal c0 s_b c0 (TName c0 s_int))])) c0 c0 []
           (SCons (SAsg (nm s_a) c0 (CAdd (ABin (AMul (MFac (FVar (nm s_a)))) c0 APlus (MFac (FVar (nm s_b))))) c0) SNil) c0;
         DProc c0 c0 s_main c0 None c0 c0 [ var_ s_t s_int ]
           (SCons (SAsg (nm s_t) c0 (e_f (lit 1)) c0)
           (SCons (SIfE c0 c0 (CBin (AMul (MFac (FVar (nm s_t)))) c0 CLt (AMul (MFac (lit 2)))) c0 (SBlk c0 SNil c0) c0
                     (SCal c0 s_add c0
                        (Some (e_f (FVar (nm s_t)),
                               [(c0, CAdd (AMul (MBin (MFac (FVar (AName [str " c"] s_t))) c0 MTimes (lit 2))))])) c0 c0))
            SNil)) c0 ];
     a_ceof := c0 |}.
Definition c14_q_call : acall :=
  {| k_c1 := c0; k_f := s_add; k_c2 := c0;
     k_a := Some (e_f (FVar (nm s_t)), [(c0, CAdd (AMul (MBin (MFac (FVar (AName [str " c"] s_t))) c0 MTimes (lit 2))))]);
     k_c3 := c0; k_c4 := c0 |}.
Definition c14_q_tree : program := Eval vm_compute in expected c14_q.
Definition c14_q_table : gtable := Eval vm_compute in match build_res c14_q_tree with ROk (_, g) => g | RFail _ => [] end.
Definition c14_q_text : text :=
  str "// adds" ++ [10] ++ str "proc add(ref a: int, b: int) { a := a + b; }" ++ [10]
  ++ str "proc main() { var t: int; t := 1; if (t < 2) { } else add(t, // c" ++ [10] ++ str " t * 2); }".

Example C14_q_well_typed : well_typed (expected c14_q) c14_q_table.
Proof.
  change (expected c14_q) with c14_q_tree. split.
  - unfold wf_program. eexists. split; [unfold c14_q_tree; cbn [pg_decls]; decls|].
    split; [vm_compute; reflexivity|]. eexists. split; vm_compute; reflexivity.
  - unfold wt_bodies, c14_q_tree. cbn [pg_decls].
    repeat (apply Forall_cons; [split; [unfold has_entry; cbn [fst pd_name]; try exact I; vm_compute; discriminate|]|]);
      [| |apply Forall_nil].
    + unfold wt_body. cbn [fst snd]. intros pe [name [Hn [Hl _]]]. injection Hn as <-. vm_compute in Hl. injection Hl as <-.
      cbn [pe_local pd_stmts]. st.
    + unfold wt_body. cbn [fst snd]. intros pe [name [Hn [Hl _]]]. injection Hn as <-. vm_compute in Hl. injection Hl as <-.
      cbn [pe_local pd_stmts]. st.
Qed.

Example C14_q_layout :
  prog_ok c14_q = true /\
  match lex c14_q_text with Some toks => map tk toks = flatten c14_q ++ [Eof] | None => False end /\
  program_sites c14_q = [(s_main, (44%nat, c14_q_call))] /\ call_seps c14_q_call = [1; 3; 8]%nat.
Proof. vm_compute. repeat split; reflexivity. Qed.

(* the theorems applied: every position behind the `t` of the second argument (byte 121, inside the slot between
   the comma and `)`) shows add's signature with its documentation and marks parameter 1; so does every position
   at the start of the comment behind the comma (byte 114); directly behind `(` (byte 111) parameter 0 *)
Example C14_sighelp_valid_ex :
  match lex c14_q_text, new_doc_res c14_q_text with
  | Some toks, ODone d =>
      let ans j := {| sh_label := str "proc add(ref a: int, b: int)"; sh_doc := Some (str "---" ++ [10] ++ str "adds" ++ [10]);
                      sh_params := [str "ref a: int"; str "b: int"]; sh_active := Some j |} in
      (forall line col, get_insertion_index line col c14_q_text = 121%N -> signature_help d line col = ROk (Some (ans 1)))
      /\ (forall line col, get_insertion_index line col c14_q_text = 114%N -> signature_help d line col = ROk (Some (ans 1)))
      /\ (forall line col, get_insertion_index line col c14_q_text = 111%N -> signature_help d line col = ROk (Some (ans 0)))
  | _, _ => False
  end.
Proof.
  destruct C14_q_layout as [Hok [Hl [Hsites Hseps]]].
  destruct (lex c14_q_text) as [toks|] eqn:El; [|contradiction].
  destruct (new_doc_res c14_q_text) as [d|s|] eqn:Ed;
    [|vm_compute in Ed; discriminate Ed|vm_compute in Ed; discriminate Ed].
  assert (Hin : In (s_main, (44%nat, c14_q_call)) (program_sites c14_q)) by (rewrite Hsites; now left).
  destruct (C14_sighelp_valid_arg c14_q c14_q_table c14_q_text toks d Hok C14_q_well_typed El Hl Ed _ _ _ Hin) as [pe [Hpe [_ H]]].
  vm_compute in Hpe. injection Hpe as <-.
  assert (Et : toks = match lex c14_q_text with Some x => x | None => [] end) by now rewrite El.
  vm_compute in Et.
  assert (H1 : forall line col i, get_insertion_index line col c14_q_text = i -> 113 <= i -> i <= 125 ->
                 signature_help d line col = ROk (Some {| sh_label := str "proc add(ref a: int, b: int)";
                   sh_doc := Some (str "---" ++ [10] ++ str "adds" ++ [10]);
                   sh_params := [str "ref a: int"; str "b: int"]; sh_active := Some 1 |})).
  { intros line col i Hi Ha Hb.
    rewrite (H 1%nat 3%nat 8%nat {| tk := Comma; ts := 112; te := 113; terr := [] |} {| tk := RParen; ts := 125; te := 126; terr := [] |} line col
               ltac:(rewrite Hseps; reflexivity) ltac:(rewrite Hseps; reflexivity)
               ltac:(rewrite Et; reflexivity) ltac:(rewrite Et; reflexivity)
               ltac:(rewrite Hi; exact Ha) ltac:(rewrite Hi; exact Hb)).
    vm_compute. reflexivity. }
  split; [|split].
  - intros line col Hi. apply (H1 line col 121 Hi); vm_compute; discriminate.
  - intros line col Hi. apply (H1 line col 114 Hi); vm_compute; discriminate.
  - intros line col Hi.
    rewrite (H 0%nat 1%nat 3%nat {| tk := LParen; ts := 110; te := 111; terr := [] |} {| tk := Comma; ts := 112; te := 113; terr := [] |} line col
               ltac:(rewrite Hseps; reflexivity) ltac:(rewrite Hseps; reflexivity)
               ltac:(rewrite Et; reflexivity) ltac:(rewrite Et; reflexivity)
               ltac:(rewrite Hi; vm_compute; discriminate) ltac:(rewrite Hi; vm_compute; discriminate)).
    vm_compute. reflexivity.
Qed.

(* ... and evaluated independently of the theorems, at every column of lines 2 and 3 around the call: no
   answer in front of the callee (line 2 column 53) and behind the `;` (line 3 column 8); parameter 0 from the
   callee `add` (columns 54..56) up to and including the comma (column 59) - the quirk: the answer is given on
   the callee name too -, parameter 1 behind the comma, in the comment, on the next line up to and including
   the `;` (line 3 columns 0..7) *)
Example C14_sighelp_quirk_ex :
  match new_doc_res c14_q_text with
  | ODone d =>
      let act line c := match signature_help d line c with ROk (Some h) => sh_active h | _ => None end in
      map (act 2) [53; 54; 55; 56; 57; 58; 59; 60; 61; 64] = [None; Some 0; Some 0; Some 0; Some 0; Some 0; Some 0; Some 1; Some 1; Some 1]
      /\ map (act 3) [0; 1; 2; 5; 6; 7; 8; 9] = [Some 1; Some 1; Some 1; Some 1; Some 1; Some 1; None; None]
  | _ => False
  end.
Proof. vm_compute. split; reflexivity. Qed.

(* ---- the full property, PROVED for every document without diagnostics ----
   By the completeness of the front end (Proofs/CompleteFront.v: a document that AnalyzedSource::new builds,
   whose errors() is empty and none of whose tokens carries a lexical error, is the document of a layout of a
   well-typed abstract program, with the mandated tree and an accepted table) C14_hover_valid and
   C14_sighelp_valid_full apply to every such document (Proofs/CompleteFeatures.v). *)
From Spl Require Import Spec.Nav Proofs.CompleteFront Proofs.CompleteFeatures.

Theorem C14_hover_full : C14_hover_full_statement.
Proof. exact hover_full_statement_holds. Qed.
Print Assumptions C14_hover_full.

Theorem C14_sighelp_full : C14_sighelp_full_statement.
Proof. exact sighelp_full_statement_holds. Qed.
Print Assumptions C14_sighelp_full.

(* the hypothesis of the two statements, spelled out, is the [clean_doc] of Spec/Nav.v (C12_full, C13_full) *)
Theorem C14_no_diagnostics_clean : forall (t : text) (d : doc),
  clean_doc t d <-> new_doc_res t = ODone d /\ no_diagnostics d.
Proof.
  intros t d. split; [exact (clean_no_diagnostics t d)|]. intros [Hd Hn]. exact (no_diagnostics_clean t d Hd Hn).
Qed.
Print Assumptions C14_no_diagnostics_clean.

Theorem C14_hover_clean : forall (t : text) (d : doc), clean_doc t d ->
  forall owner k x sc, In (owner, (k, x, sc)) (program_occs (d_ast d)) ->
  forall tok line col, nth_error (d_toks d) k = Some tok ->
    ts tok <= get_insertion_index line col t -> get_insertion_index line col t < te tok ->
    exists e, HoverProofs.binding d owner sc x = Some e /\
      hover d line col = ROk (Some (hover_text e, (as_position (ts tok) t, as_position (te tok) t))).
Proof. exact hover_clean. Qed.
Print Assumptions C14_hover_clean.

(* the token vector of a document without diagnostics is derivable in the grammar, the tree is the mandated
   one and the table is accepted by the static semantics ... *)
Theorem C14_clean_doc_derivable : forall (t : text) (d : doc), clean_doc t d ->
  exists p G, prog_ok p = true /\ well_typed (expected p) G /\ lex t = Some (d_toks d) /\
              map tk (d_toks d) = flatten p ++ [Eof] /\ d_ast d = expected p /\ d_table d = G.
Proof. exact clean_doc_valid. Qed.
Print Assumptions C14_clean_doc_derivable.

(* ... and this holds for EVERY derivation p of the token vector (the grammar with [prog_ok] is unambiguous
   up to the mandated tree) *)
Theorem C14_clean_doc_layout : forall (t : text) (d : doc) (p : aprog),
  clean_doc t d -> prog_ok p = true -> map tk (d_toks d) = flatten p ++ [Eof] ->
  well_typed (expected p) (d_table d) /\ lex t = Some (d_toks d) /\ new_doc_res t = ODone d /\ d_ast d = expected p.
Proof. exact clean_doc_layout. Qed.
Print Assumptions C14_clean_doc_layout.

(* signature help at the call sites the grammar locates (C14_sighelp_valid + C14_sighelp_valid_arg) *)
Theorem C14_sighelp_clean : forall (t : text) (d : doc) (p : aprog),
  clean_doc t d -> prog_ok p = true -> map tk (d_toks d) = flatten p ++ [Eof] ->
  forall owner k c, In (owner, (k, c)) (program_sites p) ->
  exists pe, lookup (d_table d) (k_f c) = Some (GProcE pe) /\ length (pe_params pe) = nargs (k_a c) /\
  (forall lp rp line col,
    nth_error (d_toks d) (k + lp_pos c) = Some lp -> nth_error (d_toks d) (k + rp_pos c) = Some rp ->
    te lp <= get_insertion_index line col t -> get_insertion_index line col t <= ts rp ->
    signature_help d line col
    = ROk (Some (sighelp_answer pe (firstn (length (fl_call c)) (skipn k (d_toks d))) (get_insertion_index line col t)))) /\
  (forall j qa qb a b line col,
    nth_error (call_seps c) j = Some qa -> nth_error (call_seps c) (S j) = Some qb ->
    nth_error (d_toks d) (k + qa) = Some a -> nth_error (d_toks d) (k + qb) = Some b ->
    te a <= get_insertion_index line col t -> get_insertion_index line col t <= ts b ->
    signature_help d line col
    = ROk (Some {| sh_label := show_pentry pe; sh_doc := sig_documentation (pe_doc pe);
                   sh_params := map show_ventry (pe_params pe);
                   sh_active := match pe_params pe with [] => None | _ :: _ => Some (N.of_nat j) end |})).
Proof. exact sighelp_clean. Qed.
Print Assumptions C14_sighelp_clean.

Theorem C14_sighelp_clean_none : forall (t : text) (d : doc) (p : aprog),
  clean_doc t d -> prog_ok p = true -> map tk (d_toks d) = flatten p ++ [Eof] ->
  forall line col,
  (forall owner k c first last, In (owner, (k, c)) (program_sites p) ->
     nth_error (d_toks d) k = Some first -> nth_error (d_toks d) (k + length (fl_call c) - 1) = Some last ->
     get_insertion_index line col t < ts first \/ te last <= get_insertion_index line col t) ->
  signature_help d line col = ROk None.
Proof. exact sighelp_clean_none. Qed.
Print Assumptions C14_sighelp_clean_none.

(* non-vacuity: the two example texts of this file are documents without diagnostics (decided by evaluation),
   so C14_hover_full / C14_sighelp_full apply to them without naming an abstract program; a text with a
   lexical error only - `proc main() { var x: int; x := 99999999999; }` - has an empty errors() but is not one *)
Example C14_full_ex :
  is_clean c14_valid_text = true /\ is_clean c14_q_text = true /\
  match new_doc_res (str "proc main() { var x: int; x := 99999999999; }") with
  | ODone d => doc_errors_res d = ROk [] /\ is_clean (d_text d) = false
  | _ => False
  end.
Proof. vm_compute. repeat split; reflexivity. Qed.
