(* C14 - hover and signature help (lsp4spl/src/features/hover.rs, signature_help.rs, the Display
   implementations of spl_frontend/src/table.rs; modelled in Model/Hover.v, Model/SigHelp.v).
   Statements only; the proofs are in Proofs/HoverProofs.v.

   Proved here, for ALL documents (valid program or not):
     C14_hover_answer         shape of every hover answer: an identifier token under the cursor, exactly
                              its range, code block of the Display of an entry named like it + doc block
     C14_hover_entry          which table that entry comes from
     C14_hover_none(_first)   no identifier under the cursor => no answer
     C14_hover_total          no panic under the explicit predicate [cursor_pre]
     C14_sighelp_answer       shape of every signature-help answer: a call statement of the tree around
                              the cursor, the callee's procedure entry, one label per parameter
     C14_sighelp_param_count  one parameter entry per parameter
     C14_sighelp_active       active parameter = number of commas of the call statement in front of the
                              cursor (documents built by AnalyzedSource::new)
     C14_count_commas         the loop-with-break of get_active_param on a slice in text order
   NOT proved: the full functional property [C14_hover_full_statement] / [C14_sighelp_full_statement]
   (for every identifier occurrence / argument list of every valid program).  The hover half is in
   fact REFUTED by the model - [C14_hover_full_refuted], known finding C14-hover-local-before-global;
   outside that class both halves are validated by correspondence + oracle. *)
From Coq Require Import String.
From Spl Require Import Model.Hover Model.SigHelp Model.Fold Proofs.HoverProofs.
Local Open Scope string_scope.
Local Open Scope list_scope.
Local Open Scope N_scope.

(* line 0 "// adds" / 1 "proc add(ref a: int, b: int) {" / 2 "  // tmp" / 3 "  var t: int;" /
   4 "  t := a; add(t, // c" / 5 " b);" / 6 "}" / 7 "proc main() {}" *)
Definition c14_text : text :=
  str "// adds" ++ [10] ++ str "proc add(ref a: int, b: int) {" ++ [10] ++ str "  // tmp" ++ [10]
  ++ str "  var t: int;" ++ [10] ++ str "  t := a; add(t, // c" ++ [10] ++ str " b);" ++ [10] ++ str "}" ++ [10]
  ++ str "proc main() {}".

(* ---- hover ---- *)

Theorem C14_hover_answer : forall (d : doc) line col v r,
  hover d line col = ROk (Some (v, r)) ->
  let index := get_insertion_index line col (d_text d) in
  exists t name ctx e,
    token_at (d_toks d) index = Some t /\ In t (d_toks d) /\ tk t = Ident name /\
    ts t <= index /\ index < te t /\
    r = (as_position (ts t) (d_text d), as_position (te t) (d_text d)) /\
    hover_entry d ctx name = Some e /\ v = hover_text e.
Proof. exact hover_inv. Qed.
Print Assumptions C14_hover_answer.

Example C14_hover_answer_ex :
  match new_doc_res c14_text with
  | ODone d =>
      hover d 1 6 = ROk (Some (str "```spl" ++ [10] ++ str "proc add(ref a: int, b: int)" ++ [10] ++ str "```"
                               ++ [10] ++ str "---" ++ [10] ++ str "adds" ++ [10], ((1, 5), (1, 8))))
      /\ hover d 4 7 = ROk (Some (str "```spl" ++ [10] ++ str "ref a: int" ++ [10] ++ str "```", ((4, 7), (4, 8))))
      /\ hover d 3 6 = ROk (Some (str "```spl" ++ [10] ++ str "t: int" ++ [10] ++ str "```"
                                  ++ [10] ++ str "---" ++ [10] ++ str "tmp" ++ [10], ((3, 6), (3, 7))))
  | _ => False
  end.
Proof. vm_compute. repeat split; reflexivity. Qed.

Theorem C14_hover_entry : forall (d : doc) ctx name e,
  hover_entry d ctx name = Some e ->
  match ctx with
  | GTypeE _ => exists g, lookup (d_table d) name = Some g /\ e = entry_of_g g
  | GProcE p =>
      (exists l, lookup (pe_local p) name = Some l /\ e = entry_of_l l)
      \/ (lookup (pe_local p) name = None /\ exists g, lookup (d_table d) name = Some g /\ e = entry_of_g g)
  end.
Proof. exact hover_entry_inv. Qed.
Print Assumptions C14_hover_entry.

Theorem C14_hover_none : forall (d : doc) line col,
  (forall t name, In t (d_toks d) -> tk t = Ident name ->
     in_range (ts t, te t) (get_insertion_index line col (d_text d)) = false) ->
  forall x, hover d line col <> ROk (Some x).
Proof. exact hover_none. Qed.
Print Assumptions C14_hover_none.

Theorem C14_hover_none_first : forall (d : doc) line col,
  (forall t, token_at (d_toks d) (get_insertion_index line col (d_text d)) = Some t ->
             forall name, tk t <> Ident name) ->
  forall x, hover d line col <> ROk (Some x).
Proof. exact hover_none_first. Qed.
Print Assumptions C14_hover_none_first.

(* the keyword `proc`, the comment, white space, the end of the identifier `add`, beyond the text *)
Example C14_hover_none_ex :
  match new_doc_res c14_text with
  | ODone d => map (fun p => hover d (fst p) (snd p)) [(1, 0); (0, 3); (1, 4); (1, 8); (9, 0)]
               = [ROk None; ROk None; ROk None; ROk None; ROk None]
  | _ => False
  end.
Proof. vm_compute. reflexivity. Qed.

Theorem C14_hover_total : forall (d : doc) line col,
  cursor_pre d = true -> exists r, hover d line col = ROk r.
Proof. exact hover_total. Qed.
Print Assumptions C14_hover_total.

Example C14_hover_total_ex :
  match new_doc_res c14_text, new_doc_res (str "proc ( { f(1, ; type = ;") with
  | ODone d1, ODone d2 => cursor_pre d1 = true /\ cursor_pre d2 = true /\ hover d2 0 9 = ROk None
  | _, _ => False
  end.
Proof. vm_compute. repeat split; reflexivity. Qed.

(* ---- signature help ---- *)

Theorem C14_sighelp_answer : forall (d : doc) line col h,
  signature_help d line col = ROk (Some h) ->
  let index := get_insertion_index line col (d_text d) in
  exists pd pd_off name inf off pe sl,
    In (GProc pd, pd_off) (pg_decls (d_ast d)) /\
    In (name, inf, off) (calls_of_stmts (pd_stmts pd) pd_off) /\
    call_contains (d_toks d) index (name, inf, off) /\
    lookup (d_table d) (id_val name) = Some (GProcE pe) /\
    slice (d_toks d) (shift_range (info_range inf) off) = ROk sl /\
    sh_label h = show_pentry pe /\
    sh_doc h = sig_documentation (pe_doc pe) /\
    sh_params h = map show_ventry (pe_params pe) /\
    sh_active h = active_of (pe_params pe) sl index.
Proof. exact sighelp_inv. Qed.
Print Assumptions C14_sighelp_answer.

Theorem C14_sighelp_param_count : forall (d : doc) line col h,
  signature_help d line col = ROk (Some h) ->
  exists name pe, lookup (d_table d) (id_val name) = Some (GProcE pe) /\
                  length (sh_params h) = length (pe_params pe).
Proof. exact sighelp_param_count. Qed.
Print Assumptions C14_sighelp_param_count.

Theorem C14_sighelp_active : forall (t : text) (d : doc) line col h,
  new_doc_res t = ODone d ->
  signature_help d line col = ROk (Some h) ->
  exists name inf off pe sl,
    lookup (d_table d) (id_val name) = Some (GProcE pe) /\
    slice (d_toks d) (shift_range (info_range inf) off) = ROk sl /\
    sh_active h = match pe_params pe with
                  | [] => None
                  | _ :: _ => Some (commas_before sl (get_insertion_index line col t))
                  end.
Proof. exact sighelp_active_new_doc. Qed.
Print Assumptions C14_sighelp_active.

Theorem C14_count_commas : forall sl index,
  toks_sorted sl = true -> count_commas sl index 0 = commas_before sl index.
Proof. exact count_commas_spec. Qed.
Print Assumptions C14_count_commas.

(* after `(`, before the comma, after the comma (inside the comment), next line, before `)`;
   outside the call statement and outside every procedure: no answer *)
Example C14_sighelp_ex :
  match new_doc_res c14_text with
  | ODone d =>
      map (fun p => match signature_help d (fst p) (snd p) with
                    | ROk (Some h) => Some (sh_label h, sh_params h, sh_active h)
                    | _ => None
                    end) [(4, 14); (4, 15); (4, 16); (5, 0); (5, 2)]
      = (let s := (str "proc add(ref a: int, b: int)", [str "ref a: int"; str "b: int"]) in
         [Some (s, Some 0); Some (s, Some 0); Some (s, Some 1); Some (s, Some 1); Some (s, Some 1)])
      /\ signature_help d 4 3 = ROk None /\ signature_help d 7 5 = ROk None /\ signature_help d 6 1 = ROk None
  | _ => False
  end.
Proof. vm_compute. repeat split; reflexivity. Qed.

(* ---- the full property ---- *)

(* hover: for every identifier occurrence (by syntactic role: Proofs/HoverProofs.v [program_occs],
   [binding]) of every document without diagnostics, at every column of the identifier *)
Definition C14_hover_full_statement : Prop := hover_full_statement.

(* signature help: for every call statement of every document without diagnostics, at every cursor
   index between its parentheses *)
Definition C14_sighelp_full_statement : Prop := sighelp_full_statement.

(* the hover half does NOT hold for the code as it is: on the name of `proc k() { var k: int; ... }`
   hover answers with the local variable k (witness evaluated by vm_compute, replayed on the server
   by corpus/C14/proc_name_vs_local.json) *)
Theorem C14_hover_full_refuted : ~ C14_hover_full_statement.
Proof. exact hover_full_refuted. Qed.
Print Assumptions C14_hover_full_refuted.
