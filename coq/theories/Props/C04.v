(* C04 - the syntax tree is the derivation the SPL grammar mandates.

   Spec/Grammar.v: abstract syntax whose shape is the derivation (precedence levels and left-nested operator
   chains by construction, a comment slot in front of every token), `flatten` (token kinds in source order),
   `expected` (the spl_frontend tree with every range and Reference offset computed from flatten lengths, no
   errors), `prog_ok` (no dangling-else shape: the then-branch of an if-with-else does not end in an open if).
   Model/Parser.v: the parser.  Statements only; proofs in Proofs/Grammar*.v. *)
From Spl Require Import Spec.Grammar Model.Parser Proofs.GrammarProofs.

(* For ALL abstract programs, with comments in any token gap: on any token vector whose kinds are the
   program's tokens followed by Eof, the parser (with its own fuel) returns exactly the mandated tree. *)
Theorem C04_roundtrip : forall p toks,
  prog_ok p = true -> map tk toks = flatten p ++ [Eof] -> parse toks = Done (expected p).
Proof. exact roundtrip. Qed.
Print Assumptions C04_roundtrip.

(* no syntax diagnostic: no error attached to any node, no error node, no missing child *)
Theorem C04_no_syntax_diag : forall p toks,
  prog_ok p = true -> map tk toks = flatten p ++ [Eof] -> exists t, parse toks = Done t /\ tree_clean t = true.
Proof. exact no_syntax_diag. Qed.
Print Assumptions C04_no_syntax_diag.

(* every node's range is [index of its first leading comment, + the number of its own tokens), relative to
   the enclosing Reference; declarations are References at the absolute index of their first token *)
Theorem C04_ranges_exact : forall p toks,
  prog_ok p = true -> map tk toks = flatten p ++ [Eof] ->
  exists t, parse toks = Done t /\
    span (pg_info t) 0 (length (flat_map fl_decl (a_decls p))) /\
    (forall i d, nth_error (a_decls p) i = Some d ->
       exists g, nth_error (pg_decls t) i = Some (g, length (flat_map fl_decl (firstn i (a_decls p)))) /\
                 g = x_decl d /\ span (gdecl_info g) 0 (length (fl_decl d))) /\
    (forall o v, span (var_info (x_var o v)) o (length (fl_var v))) /\
    (forall o e, span (expr_info (x_cmp o e)) o (length (fl_cmp e))) /\
    (forall o a, span (expr_info (x_add o a)) o (length (fl_add a))) /\
    (forall o m, span (expr_info (x_mul o m)) o (length (fl_mul m))) /\
    (forall o f, span (expr_info (x_fac o f)) o (length (fl_fac f))) /\
    (forall o ty, span (texpr_info (x_type o ty)) o (length (fl_type ty))) /\
    (forall o s, span (stmt_info (x_stmt o s)) o (length (fl_stmt s))) /\
    (forall q, span (paramdecl_info (x_param q)) 0 (length (fl_param q))) /\
    (forall v, span (vardecl_info (x_vardecl v)) 0 (length (fl_vardecl v))).
Proof. exact ranges_exact. Qed.
Print Assumptions C04_ranges_exact.

(* the parser sees token kinds only: byte ranges / lexical error lists of the tokens (all that a layout
   changes once the kinds are fixed) do not influence the tree *)
Theorem C04_layout_independent : forall p toks1 toks2,
  prog_ok p = true -> map tk toks1 = flatten p ++ [Eof] -> map tk toks2 = map tk toks1 -> parse toks2 = parse toks1.
Proof. exact layout_independent. Qed.
Print Assumptions C04_layout_independent.

(* ... and that holds for EVERY token vector, syntactically valid or not: `parse` is a function of `map tk toks` *)
Theorem C04_parser_sees_kinds_only : forall toks1 toks2,
  map tk toks2 = map tk toks1 -> parse toks2 = parse toks1.
Proof. exact layout_independent_all. Qed.
Print Assumptions C04_parser_sees_kinds_only.

(* ---- non-vacuity ---- *)
Open Scope N_scope.
Definition mktok (k : kind) : token := {| tk := k; ts := 0; te := 0; terr := [] |}.
Definition c0 : cs := [].
Definition c1 : cs := [[32; 110; 111; 116; 101]].              (* // note *)
Definition c2 : cs := [[]; [47; 47; 32; 120]].                 (* //  and  //// x *)
Definition nm (s : text) := AName c0 s.
Definition fv (s : text) := FVar (nm s).
Definition lit n := FLit c0 (LDec n).
Definition e_f f := CAdd (AMul (MFac f)).
(* a - b - c * -(-d) / 2 < (1 = 'x')   with comments in odd gaps *)
Definition ex_e : acmp :=
  CBin (ABin (ABin (AMul (MFac (fv [97]))) c1 AMinus (MFac (FVar (AName c2 [98])))) c0 AMinus
             (MBin (MBin (MFac (fv [99])) c1 MTimes (FNeg c2 (FPar c1 (e_f (FNeg c0 (fv [100]))) c2))) c0 MDivide (lit 2)))
       c2 CLt (AMul (MFac (FPar c0 (CBin (AMul (MFac (FLit c1 (LHex 255)))) c1 CEq (AMul (MFac (FLit c2 (LChr 120))))) c0))).
(* v[i+1][j] := e; *)
Definition ex_v : avar :=
  AIndex (AIndex (AName c2 [118]) c1 (CAdd (ABin (AMul (MFac (fv [105]))) c1 APlus (MFac (lit 1)))) c2) c0 (e_f (fv [106])) c1.
Definition ex_s1 := SAsg ex_v c1 ex_e c2.
(* if (e) if (e) ; else while (e) f(e, 1);    - the else belongs to the inner if *)
Definition ex_s2 :=
  SIfT c1 c2 ex_e c1 (SIfE c0 c1 ex_e c2 (SEmp c1) c2 (SWhl c1 c2 ex_e c0 (SCal c1 [102] c2 (Some (ex_e, [(c1, e_f (lit 1))])) c1 c2))).
(* if (e) { } else if (e) s1 else { s2 } *)
Definition ex_s3 :=
  SIfE c0 c0 ex_e c0 (SBlk c1 SNil c2) c1 (SIfE c0 c0 ex_e c0 ex_s1 c2 (SBlk c0 (SCons ex_s2 SNil) c1)).
Definition ex_t := TArr c1 c2 c0 (LDec 3) c1 c2 (TArr c0 c0 c1 (LHex 16) c0 c0 (TName c2 [105; 110; 116])).
Definition ex_p : aprog :=
  {| a_decls :=
       [ DType c2 c1 [116] c1 ex_t c2;
         DProc c1 c2 [112] c1 (Some (PVal c2 [97] c1 ex_t, [(c1, PRef c2 c1 [98] c2 (TName c0 [116]))])) c1 c2
           [ {| v_c1 := c2; v_c2 := c1; v_x := [118]; v_c3 := c1; v_t := ex_t; v_c4 := c2 |} ]
           (SCons ex_s1 (SCons ex_s2 (SCons ex_s3 SNil))) c2;
         DProc c0 c0 [109; 97; 105; 110] c0 None c0 c0 [] SNil c0 ];
     a_ceof := c2 |}.

(* the hypotheses are satisfiable, the instance is large (several hundred tokens) ... *)
Example C04_ex_ok : prog_ok ex_p = true /\ (200 <? N.of_nat (length (flatten ex_p))) = true.
Proof. vm_compute. split; reflexivity. Qed.
(* ... and the conclusion is what the model computes (evaluated, independently of the theorem) *)
Example C04_ex_parse : parse (map mktok (flatten ex_p ++ [Eof])) = Done (expected ex_p).
Proof. vm_compute. reflexivity. Qed.
Example C04_ex_instance : parse (map mktok (flatten ex_p ++ [Eof])) = Done (expected ex_p).
Proof. apply C04_roundtrip; [vm_compute; reflexivity | now rewrite map_map, map_id]. Qed.

(* `expected` discriminates: the other bracketing of a - b - c is a different tree, and prog_ok is needed:
   for the dangling-else shape excluded by it the parser does NOT return the tree of the abstract program *)
Definition sub3_left := ABin (ABin (AMul (MFac (fv [97]))) c0 AMinus (MFac (fv [98]))) c0 AMinus (MFac (fv [99])).
Definition sub3_right := ABin (AMul (MFac (fv [97]))) c0 AMinus (MFac (FPar c0 (CAdd (ABin (AMul (MFac (fv [98]))) c0 AMinus (MFac (fv [99])))) c0)).
Example C04_left_assoc :
  x_add 0 sub3_left = EBin OSub (EBin OSub (EVar (NamedVar (x_ident 0 c0 [97]))) (EVar (NamedVar (x_ident 2 c0 [98]))) (mkinfo 0 3))
                                (EVar (NamedVar (x_ident 4 c0 [99]))) (mkinfo 0 5)
  /\ fl_add sub3_left <> fl_add sub3_right.
Proof. split; [reflexivity | discriminate]. Qed.

Definition ex_dangling : aprog :=
  {| a_decls := [DProc c0 c0 [109] c0 None c0 c0 []
                   (SCons (SIfE c0 c0 (e_f (fv [97])) c0 (SIfT c0 c0 (e_f (fv [98])) c0 (SEmp c0)) c0 (SEmp c0)) SNil) c0];
     a_ceof := c0 |}.
Example C04_prog_ok_needed :
  prog_ok ex_dangling = false /\ parse (map mktok (flatten ex_dangling ++ [Eof])) <> Done (expected ex_dangling).
Proof. split; [reflexivity|]. vm_compute. discriminate. Qed.

(* ------------------------------------------------------------------------------------------ *)
(* FROM TEXT.  The theorems above take the token kinds as given; with C06 conformance (Props/C06.v) the
   lexer is discharged too.  Proofs/RenderProofs.v: `spell k` is the canonical spelling of a token kind
   (symbols and keywords from the tables, `Ident s` = s, decimal digits, `0x` + upper-case hex digits, 'c' or
   '\n', `//` + comment text + line feed); `render_kinds ks gaps` weaves the spellings of ks with the
   whitespace gaps (gap, token, gap, ..., token, gap); `gaps_ok ks gaps`: one more gap than tokens, whitespace
   only, and a gap BETWEEN two tokens is empty only if `needs_sep` of the two kinds is false (their spellings
   do not merge or re-split: decided from the lexical grammar's `Delimited`).  `aprog_valid p`
   (Proofs/PipelineText.v): identifiers well-formed and no keywords, literals < 2^32, comment texts without
   line feed. *)
From Spl Require Import Model.Lexer Proofs.RenderProofs Proofs.PipelineText.

(* every layout of a valid abstract program lexes and parses to the mandated tree *)
Theorem C04_text_roundtrip : forall p gaps t,
  prog_ok p = true -> aprog_valid p = true -> gaps_ok (flatten p) gaps -> render_kinds (flatten p) gaps = Some t ->
  exists toks, lex t = Some toks /\ parse toks = Done (expected p).
Proof. exact text_roundtrip. Qed.
Print Assumptions C04_text_roundtrip.

(* layout independence at text level *)
Theorem C04_text_layout_independent : forall p gaps1 gaps2 t1 t2,
  prog_ok p = true -> aprog_valid p = true ->
  gaps_ok (flatten p) gaps1 -> render_kinds (flatten p) gaps1 = Some t1 ->
  gaps_ok (flatten p) gaps2 -> render_kinds (flatten p) gaps2 = Some t2 ->
  exists toks1 toks2, lex t1 = Some toks1 /\ lex t2 = Some toks2 /\ parse toks1 = parse toks2.
Proof. exact text_layout_independent. Qed.
Print Assumptions C04_text_layout_independent.

(* layouts exist: rendering succeeds for every gap list of the right length; non-empty whitespace behind
   every token is always a layout, and so is the densest one (a blank exactly where needs_sep holds) *)
Theorem C04_text_layouts_exist : forall p,
  aprog_valid p = true ->
  (forall gaps, length gaps = S (length (flatten p)) -> exists t, render_kinds (flatten p) gaps = Some t) /\
  (forall gaps, gaps_simple (flatten p) gaps -> gaps_ok (flatten p) gaps) /\
  gaps_ok (flatten p) (min_gaps None (flatten p)).
Proof.
  exact (fun p Hv => conj (fun gaps => text_render_total p gaps Hv)
                    (conj (gaps_simple_ok (flatten p)) (min_gaps_ok (flatten p) None))).
Qed.
Print Assumptions C04_text_layouts_exist.

(* non-vacuity: a tiny program with comments, in its densest layout and in an odd one (tabs, CR LF, blanks) *)
(* // note
   proc m()//
   //// x
   {x:=1// note
   -0xFF<='\n'/ifx;}// note        (ifx is an identifier) *)
Definition ex_small : aprog :=
  {| a_decls := [DProc c1 c0 [109] c0 None c0 c2 []
       (SCons (SAsg (AName c0 [120]) c0
                 (CBin (ABin (AMul (MFac (lit 1))) c1 AMinus (MFac (FLit c0 (LHex 255)))) c0 CLe
                       (AMul (MBin (MFac (FLit c0 (LChr 10))) c0 MDivide (FVar (AName c0 [105; 102; 120]))))) c0) SNil) c0];
     a_ceof := c1 |}.
Definition dense_text : text :=
  [47; 47; 32; 110; 111; 116; 101; 10;                                   (* // note *)
   112; 114; 111; 99; 32; 109; 40; 41; 47; 47; 10;                       (* proc m()// *)
   47; 47; 47; 47; 32; 120; 10;                                          (* //// x *)
   123; 120; 58; 61; 49; 47; 47; 32; 110; 111; 116; 101; 10;             (* {x:=1// note *)
   45; 48; 120; 70; 70; 60; 61; 39; 92; 110; 39; 47; 105; 102; 120; 59; 125;    (* -0xFF<='\n'/ifx;} *)
   47; 47; 32; 110; 111; 116; 101; 10].                                  (* // note *)
Definition odd_gaps : list text :=
  map (fun i => nth (Nat.modulo i 3) [[9]; [13; 10; 32]; [32; 32]] []) (seq 0 (S (length (flatten ex_small)))).
Definition text_pipeline (o : option text) :=
  match o with Some t => match lex t with Some toks => Some (parse toks) | None => None end | None => None end.
Example C04_ex_text_hyps :
  prog_ok ex_small = true /\ aprog_valid ex_small = true /\
  gaps_ok (flatten ex_small) (min_gaps None (flatten ex_small)) /\ gaps_ok (flatten ex_small) odd_gaps /\
  render_kinds (flatten ex_small) (min_gaps None (flatten ex_small)) = Some dense_text.
Proof. vm_compute. repeat split; reflexivity. Qed.
Example C04_ex_text_parse :
  text_pipeline (Some dense_text) = Some (Done (expected ex_small)) /\
  text_pipeline (render_kinds (flatten ex_small) odd_gaps) = Some (Done (expected ex_small)).
Proof. vm_compute. split; reflexivity. Qed.
Example C04_ex_text_instance : exists toks, lex dense_text = Some toks /\ parse toks = Done (expected ex_small).
Proof.
  apply (C04_text_roundtrip ex_small (min_gaps None (flatten ex_small))); vm_compute; reflexivity.
Qed.
(* gaps_ok is needed: without the blank, `proc m` is one identifier and the tree is a different one *)
Example C04_ex_text_gap_needed :
  gaps_okb (flatten ex_small) (map (fun _ => []) (seq 0 (S (length (flatten ex_small))))) = false /\
  text_pipeline (render_kinds (flatten ex_small) (map (fun _ => []) (seq 0 (S (length (flatten ex_small))))))
  <> Some (Done (expected ex_small)).
Proof. split; [vm_compute; reflexivity|]. vm_compute. discriminate. Qed.
