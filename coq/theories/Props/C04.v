(* C04 - placeholder while the proofs are integrated; replaced by the final statements *)
From Spl Require Import Spec.Grammar Model.Parser.
Definition mktok (k : kind) : token := {| tk := k; ts := 0; te := 0; terr := [] |}.
Definition p0 : aprog := {| a_decls := [DProc [] [] [109] [] None [] [] [] (SCons (SEmp [[32]]) SNil) []]; a_ceof := [[33]] |}.
Theorem C04_witness : parse (map mktok (flatten p0 ++ [Eof])) = Done (expected p0).
Proof. vm_compute. reflexivity. Qed.
Print Assumptions C04_witness.
