(* C19 - message framing is independent of how the byte stream is chunked.
   This file contains statements only; every proof is `exact <lemma>`.

   Model/Codec.v: `decode` = LSCodec::decode (httparse::parse_headers, usize::from_str, the 21-byte
   guard), `encode_frame` = LSCodec::encode, `run_chunks json_ok chunks` = the items produced by
   tokio_util's FramedRead<_, LSCodec> when the reads deliver exactly `chunks` and then end of
   input; `json_ok body` says whether the body deserialises to a Message (a function of the body
   bytes alone).  Bytes are numbers; all lengths are byte counts (`blen`). *)
From Coq Require Import List NArith Bool.
Import ListNotations.
From Spl Require Import Model.Codec Proofs.CodecProofs.
Open Scope N_scope.

(* more bytes never change a verdict: a decoded frame (body and consumed length), a header error
   and a crash are final; only "need more" can change when bytes arrive *)
Theorem C19_mono : forall b x,
  (forall m n, decode b = Frame m n -> decode (b ++ x) = Frame m n) /\
  (decode b = Bad -> decode (b ++ x) = Bad) /\
  (decode b = Crash -> decode (b ++ x) = Crash).
Proof. exact decode_mono. Qed.
Print Assumptions C19_mono.

(* however the stream is cut into reads, the server sees the same message sequence and the same
   error point as when the whole stream arrives in one read *)
Theorem C19_chunking : forall (json_ok : list N -> bool) (chunks : list (list N)),
  run_chunks json_ok chunks = run_chunks json_ok [concat chunks].
Proof. exact chunking. Qed.
Print Assumptions C19_chunking.

(* ... hence any two segmentations of the same byte stream are indistinguishable *)
Theorem C19_chunking_any : forall (json_ok : list N -> bool) (c1 c2 : list (list N)),
  concat c1 = concat c2 -> run_chunks json_ok c1 = run_chunks json_ok c2.
Proof. exact chunking_any. Qed.
Print Assumptions C19_chunking_any.

(* body lengths are counted in bytes: a frame produced by the encoder, for an arbitrary byte
   string as body (so any multi-byte UTF-8 text) and followed by arbitrary bytes, is decoded to
   exactly that body and consumes exactly the frame.  Side condition: the frame fits a usize. *)
Theorem C19_bytes : forall body x,
  blen (encode_frame body) < 2 ^ 64 ->
  decode (encode_frame body ++ x) = Frame body (blen (encode_frame body)).
Proof. exact decode_encode_frame. Qed.
Print Assumptions C19_bytes.

(* every emitted frame is "Content-Length: " <decimal byte length of the body> CR LF CR LF body *)
Theorem C19_encode : forall body,
  encode_frame body =
  [67; 111; 110; 116; 101; 110; 116; 45; 76; 101; 110; 103; 116; 104; 58; 32]
  ++ print_dec (N.of_nat (length body)) ++ [13; 10; 13; 10] ++ body.
Proof. exact (fun body => eq_refl). Qed.
Print Assumptions C19_encode.

(* ... where the decimal printer is inverted by the decoder's length parser on all of usize *)
Theorem C19_length_roundtrip : forall n, n < 2 ^ 64 -> parse_usize (print_dec n) = Some n.
Proof. exact parse_usize_print_dec. Qed.
Print Assumptions C19_length_roundtrip.

(* a stream of encoded frames, cut into reads in any way, is decoded to exactly the bodies, in order,
   with no error and nothing left over *)
Theorem C19_stream : forall (json_ok : list N -> bool) (bodies : list (list N)) (chunks : list (list N)),
  Forall (fun b => json_ok b = true /\ blen (encode_frame b) < 2 ^ 64) bodies ->
  concat chunks = concat (map encode_frame bodies) ->
  run_chunks json_ok chunks = map EMsg bodies.
Proof. exact stream. Qed.
Print Assumptions C19_stream.

(* ---- regression witness (corpus/C19/null_body.json).  Until /repo commit e5c7771 a frame with the
   body `null` was consumed while decode answered Ok(None) ("need more bytes").  The general loop
   `run_chunks_pinned` has that outcome (JNull); it is independent of the segmentation exactly as
   long as the outcome cannot occur ... *)
Theorem C19_chunking_general : forall (jc : list N -> jclass) (chunks : list (list N)),
  (forall b, jc b <> JNull) ->
  run_chunks_pinned jc chunks = run_chunks_pinned jc [concat chunks].
Proof. exact (fun jc chunks H => chunking_pinned jc chunks H). Qed.
Print Assumptions C19_chunking_general.

(* ... and is not when it can: null-frame | null-frame + frame yields the message, the same
   bytes in one read yield "bytes remaining on stream" *)
Theorem C19_null_outcome_breaks_chunking :
  exists jc chunks, run_chunks_pinned jc chunks <> run_chunks_pinned jc [concat chunks].
Proof. exact pinned_not_chunking_independent. Qed.
Print Assumptions C19_null_outcome_breaks_chunking.

(* ---- non-vacuity: concrete instances.  The body is {"é":1}: 7 characters, 8 bytes. ---- *)

Example C19_mono_example :
  let body := [123; 34; 195; 169; 34; 58; 49; 125] in
  let f := encode_frame body in
  decode (firstn 24 f) = NeedMore                      (* cut inside the two-byte character *)
  /\ decode f = Frame body 29
  /\ decode (f ++ f) = Frame body 29
  (* a lower-case header name is an error as soon as the head is complete, and stays one *)
  /\ decode [99; 111; 110; 116; 101; 110; 116; 45; 108; 101; 110; 103; 116; 104; 58; 32; 50; 13; 10; 13; 10] = Bad
  /\ decode ([99; 111; 110; 116; 101; 110; 116; 45; 108; 101; 110; 103; 116; 104; 58; 32; 50; 13; 10; 13; 10] ++ [123; 125]) = Bad.
Proof. vm_compute. repeat split; reflexivity. Qed.

Example C19_chunking_example :
  let body := [123; 34; 195; 169; 34; 58; 49; 125] in
  let f := encode_frame body in
  (* reads: mid-header | up to the middle of the character | rest + a whole frame + a truncated one *)
  run_chunks (fun _ => true) [firstn 9 f; firstn 15 (skipn 9 f); skipn 24 f ++ f ++ firstn 20 f]
  = [EMsg body; EMsg body; ETrailing]
  /\ run_chunks (fun _ => true) [f ++ f ++ firstn 20 f] = [EMsg body; EMsg body; ETrailing].
Proof. vm_compute. split; reflexivity. Qed.

Example C19_bytes_example :
  encode_frame [123; 34; 195; 169; 34; 58; 49; 125]
  = [67; 111; 110; 116; 101; 110; 116; 45; 76; 101; 110; 103; 116; 104; 58; 32; 56; 13; 10; 13; 10;
     123; 34; 195; 169; 34; 58; 49; 125]
  /\ decode (encode_frame [123; 34; 195; 169; 34; 58; 49; 125] ++ [67; 111])
     = Frame [123; 34; 195; 169; 34; 58; 49; 125] 29.
Proof. vm_compute. split; reflexivity. Qed.

Example C19_encode_example :
  print_dec 0 = [48] /\ print_dec 1234 = [49; 50; 51; 52]
  /\ print_dec 18446744073709551615 = [49;56;52;52;54;55;52;52;48;55;51;55;48;57;53;53;49;54;49;53].
Proof. vm_compute. repeat split; reflexivity. Qed.

Example C19_length_roundtrip_example :
  parse_usize [49; 50; 51; 52] = Some 1234 /\ parse_usize [43; 48; 55] = Some 7
  /\ parse_usize [] = None /\ parse_usize [43] = None /\ parse_usize [49; 32; 50] = None
  /\ parse_usize [49;56;52;52;54;55;52;52;48;55;51;55;48;57;53;53;49;54;49;54] = None.   (* 2^64 *)
Proof. vm_compute. repeat split; reflexivity. Qed.

Example C19_stream_example :
  let b1 := [123; 34; 195; 169; 34; 58; 49; 125] in
  let b2 := [91; 93] in
  let s := encode_frame b1 ++ encode_frame b2 ++ encode_frame b1 in
  run_chunks (fun _ => true) (map (fun c => [c]) s) = [EMsg b1; EMsg b2; EMsg b1]   (* one byte per read *)
  /\ run_chunks (fun _ => true) [firstn 40 s; skipn 40 s] = [EMsg b1; EMsg b2; EMsg b1].
Proof. vm_compute. split; reflexivity. Qed.

Example C19_null_outcome_example :
  let n := encode_frame [110; 117; 108; 108] in
  let a := encode_frame [123; 125] in
  run_chunks_pinned jc_null [n; n ++ a] = [EMsg [123; 125]]
  /\ run_chunks_pinned jc_null [n ++ n ++ a] = [ETrailing]
  (* the repaired codec: `null` is not a message, in every segmentation *)
  /\ run_chunks (fun b => negb (bytes_eqb b [110; 117; 108; 108])) [n; n ++ a] = [EBadJson [110; 117; 108; 108]]
  /\ run_chunks (fun b => negb (bytes_eqb b [110; 117; 108; 108])) [n ++ n ++ a] = [EBadJson [110; 117; 108; 108]].
Proof. vm_compute. repeat split; reflexivity. Qed.
