(* C11 - formatting is idempotent, canonical and honours the indentation options.
   Statements only; the proofs are in Proofs/FormatProofs.v, the model (a transcription of
   lsp4spl/src/features/formatting.rs) in Model/Format.v.

   PROVED here, for all inputs:  null_iff, whole_edit, indentation (indent_lines, indent_unit, block_lines,
   nested_lines, proc_stmt_lines, proc_var_lines), canonical form (printer and parser read token kinds only, hence
   two documents with the same token kinds format identically).
   Sections 6-8: idempotence PROVED for every document that is a layout of a valid abstract program - comment-free (6), with
   comments in leading positions (7), and with comments ANYWHERE (8: C11_idempotent_any, C11_idempotent_document_any).
   STATED ONLY: C11_idempotent_full_statement in the form with the hypothesis `syntactically_valid doc` (its instance for all
   layouts of valid abstract programs is C11_idempotent_document_any). *)
From Coq Require Import String.
From Spl Require Import Model.Format Model.Lexer Proofs.FormatProofs Proofs.ParseKinds.
From Spl Require Model.Doc.
Import ListNotations.
Local Open Scope N_scope.

(* [formatted_text doc ins ts]: lex, parse, print with the options (insertSpaces, tabSize) *)
Example C11_formatted_text_unfold : forall doc ins ts,
  formatted_text doc ins ts =
  match lex doc with
  | None => OutOfFuel
  | Some toks =>
      match parse toks with
      | Panic => Panic
      | OutOfFuel => OutOfFuel
      | Done p => match fmt_program (options_of ins ts) p toks with FPanic => Panic | FOk t => Done t end
      end
  end.
Proof. reflexivity. Qed.

Definition c11_messy : text := str "proc  main ( ) { if(a<1){x:=007;}else y:=0x0a; }".
Definition c11_tidy : text :=
  str "proc main() {" ++ [10] ++ str "  if (a < 1) {" ++ [10] ++ str "    x := 7;" ++ [10] ++ str "  } else" ++ [10]
  ++ str "    y := 0x0A;" ++ [10] ++ str "}" ++ [10].

(* 1. The handler answers null exactly when the formatted text is the document. *)
Theorem C11_null_iff : forall doc ins ts,
  format_request doc ins ts = Done None <-> formatted_text doc ins ts = Done doc.
Proof. exact null_iff. Qed.
Print Assumptions C11_null_iff.

Example C11_null_iff_ex :
  formatted_text c11_tidy true 2 = Done c11_tidy /\ format_request c11_tidy true 2 = Done None
  /\ formatted_text c11_messy true 2 = Done c11_tidy /\ format_request c11_messy true 2 <> Done None
  /\ format_request c11_tidy true 4 <> Done None.
Proof. vm_compute. repeat split; discriminate. Qed.

(* 2. Otherwise it answers one edit: the formatted text over the whole document. *)
Theorem C11_whole_edit : forall doc ins ts r new,
  format_request doc ins ts = Done (Some (r, new)) <->
  formatted_text doc ins ts = Done new /\ new <> doc /\ r = whole_document doc.
Proof. exact edit_iff. Qed.
Print Assumptions C11_whole_edit.

Example C11_whole_edit_ex :
  format_request c11_messy true 2 = Done (Some (((0, 0), (0, 48)), c11_tidy))
  /\ whole_document c11_messy = ((0, 0), (0, 48)).
Proof. vm_compute. split; reflexivity. Qed.

(* 3. Indentation.  [lines] is str::lines, [strip_cr] removes one trailing CR (what str::lines does to a
   line that ends in CR LF). *)
Example C11_strip_cr_unfold : forall l,
  strip_cr l = match rev l with c :: r => if c =? 13 then rev r else l | [] => l end.
Proof. reflexivity. Qed.

(* the options a client can send: tab_size spaces or one tab, never a line terminator *)
Theorem C11_client_unit : forall ins ts,
  indentation (options_of ins ts) = (if ins then repeat 32 (N.to_nat ts) else [9])
  /\ ind_sym (options_of ins ts) <> 10 /\ ind_sym (options_of ins ts) <> 13.
Proof. exact client_unit. Qed.
Print Assumptions C11_client_unit.

Example C11_client_unit_ex :
  indentation (options_of true 3) = [32; 32; 32] /\ indentation (options_of false 7) = [9] /\ indentation (options_of true 0) = [].
Proof. vm_compute. repeat split. Qed.

(* every line that `indent` produces is the unit followed by the line it was given *)
Theorem C11_indent_lines : forall f, ind_sym f <> 10 -> ind_sym f <> 13 ->
  forall s, lines (indent s f) = map (fun l => indentation f ++ strip_cr l) (lines s).
Proof. exact indent_lines. Qed.
Print Assumptions C11_indent_lines.

Theorem C11_indent_unit : forall f, ind_sym f <> 10 -> ind_sym f <> 13 ->
  forall s, Forall (fun l => exists rest, l = indentation f ++ rest) (lines (indent s f)).
Proof. exact indent_unit. Qed.
Print Assumptions C11_indent_unit.

Example C11_indent_lines_ex :
  let s := str "a" ++ [13; 10] ++ str "b" ++ [10; 10] ++ str "c" in
  lines s = [str "a"; str "b"; []; str "c"]
  /\ indent s (options_of true 2) = str "  a" ++ [10] ++ str "  b" ++ [10] ++ str "  " ++ [10] ++ str "  c" ++ [10]
  /\ lines (indent s (options_of false 8)) = [9 :: str "a"; 9 :: str "b"; [9]; 9 :: str "c"].
Proof. vm_compute. repeat split. Qed.

(* a block: leading comments, "{", every line of every statement of the block one unit deeper, "}" *)
Theorem C11_block_lines : forall f, ind_sym f <> 10 -> ind_sym f <> 13 ->
  forall body inf toks out,
  body <> [] -> fmt_stmt f (SBlock body inf) toks = FOk out ->
  exists sl outs,
    slice inf toks = Some sl /\ Forall2 (printed f toks) body outs /\
    lines out = lines (leading_comment_text sl) ++ [[123]]
                ++ map (fun l => indentation f ++ strip_cr l) (flat_map lines outs) ++ [[125]].
Proof. exact block_lines. Qed.
Print Assumptions C11_block_lines.

(* by induction over the nesting: a statement [d] levels below [s] (through blocks, then/else branches that are
   not an else-if, loop bodies) has every line of its own text, [d] units deeper, among the lines of [s] *)
Theorem C11_nested_lines : forall f, ind_sym f <> 10 -> ind_sym f <> 13 ->
  forall d s toks x tx, nested d s toks x tx ->
  forall out, fmt_stmt f s toks = FOk out ->
  exists o, fmt_stmt f x tx = FOk o /\ forall l, In l (lines o) -> In (deeper_n f d l) (lines out).
Proof. exact nested_lines. Qed.
Print Assumptions C11_nested_lines.

Example C11_nesting_unfold : forall f,
  (forall l, deeper_n f 0 l = l) /\ (forall d l, deeper_n f (S d) l = indentation f ++ strip_cr (deeper_n f d l)).
Proof. intros f. split; reflexivity. Qed.

(* { { ; } }  with a comment in front of the inner statement *)
Definition c11_mk (k : kind) : token := {| tk := k; ts := 0; te := 0; terr := [] |}.
Definition c11_toks : list token := map c11_mk [LCurly; LCurly; Comment (str " c"); Semic; RCurly; RCurly].
Definition c11_inner : stmt := SEmpty (mkinfo 0 2).
Definition c11_mid : stmt := SBlock [(c11_inner, 1%nat)] (mkinfo 0 4).
Definition c11_outer : stmt := SBlock [(c11_mid, 1%nat)] (mkinfo 0 6).

Example C11_nested_lines_ex :
  let f := options_of true 2 in
  nested 2 c11_outer c11_toks c11_inner (skipn 2 c11_toks)
  /\ fmt_stmt f c11_outer c11_toks = FOk (str "{" ++ [10] ++ str "  {" ++ [10] ++ str "    // c" ++ [10] ++ str "    ;" ++ [10]
                                          ++ str "  }" ++ [10] ++ str "}" ++ [10])
  /\ fmt_stmt f c11_inner (skipn 2 c11_toks) = FOk (str "// c" ++ [10] ++ str ";" ++ [10])
  /\ deeper_n f 2 (str "// c") = str "    // c".
Proof.
  cbv zeta. split; [|vm_compute; repeat split].
  eapply nested_S; [apply (ch_block _ _ _ c11_mid 1%nat (skipn 1 c11_toks)); [left; reflexivity | reflexivity]|].
  eapply nested_S; [apply (ch_block _ _ _ c11_inner 1%nat (skipn 2 c11_toks)); [left; reflexivity | reflexivity]|].
  apply nested_0.
Qed.

(* the statements and the variable declarations of a procedure body are one unit deep *)
Theorem C11_proc_stmt_lines : forall f, ind_sym f <> 10 -> ind_sym f <> 13 ->
  forall d toks out x off t',
  fmt_procdecl f d toks = FOk out -> In (x, off) (pd_stmts d) -> slice_from off toks = Some t' ->
  exists o, fmt_stmt f x t' = FOk o /\ forall l, In l (lines o) -> In (indentation f ++ strip_cr l) (lines out).
Proof. exact proc_stmt_lines. Qed.
Print Assumptions C11_proc_stmt_lines.

Theorem C11_proc_var_lines : forall f, ind_sym f <> 10 -> ind_sym f <> 13 ->
  forall d toks out,
  fmt_procdecl f d toks = FOk out ->
  exists vd0, fmt_vardecls (pd_vars d) toks = FOk vd0 /\ forall l, In l (lines vd0) -> In (indentation f ++ strip_cr l) (lines out).
Proof. exact proc_var_lines. Qed.
Print Assumptions C11_proc_var_lines.

Example C11_proc_lines_ex :
  formatted_text (str "proc f(){var x:int; x:=1; while(x<2){x:=x+1;}}") false 4 =
  Done (str "proc f() {" ++ [10; 9] ++ str "var x: int;" ++ [10; 10; 9] ++ str "x := 1;" ++ [10; 9] ++ str "while (x < 2) {" ++ [10; 9; 9]
        ++ str "x := x + 1;" ++ [10; 9] ++ str "}" ++ [10] ++ str "}" ++ [10]).
Proof. vm_compute. reflexivity. Qed.

(* 4. Canonical form.  The printers read the KINDS of the tokens only (never their positions, never the text):
   whitespace cannot reach the output. *)
Example C11_same_kinds_unfold : forall a b, same_kinds a b = (map tk a = map tk b).
Proof. reflexivity. Qed.

Theorem C11_printer_reads_kinds_only : forall f p a b,
  same_kinds a b -> fmt_program f p a = fmt_program f p b.
Proof. exact fmt_program_kinds. Qed.
Print Assumptions C11_printer_reads_kinds_only.

(* ... and so does the parser: every access to a token in Model/Parser.v goes through its kind (a relational argument
   over all combinators and non-terminals, Proofs/ParseKinds.v) *)
Theorem C11_parser_reads_kinds_only : forall t1 t2, same_kinds t1 t2 -> parse t1 = parse t2.
Proof. exact parse_kinds. Qed.
Print Assumptions C11_parser_reads_kinds_only.

(* two documents whose token streams have the same kinds (with their values) format identically - whatever the
   whitespace between the tokens, whatever the positions.  (That two texts which differ only in whitespace lex to the
   same kinds is the lexer's business, C06; the hypothesis is decidable for any two given documents.) *)
Theorem C11_canonical : forall d1 d2 t1 t2 ins ts,
  lex d1 = Some t1 -> lex d2 = Some t2 -> same_kinds t1 t2 ->
  formatted_text d1 ins ts = formatted_text d2 ins ts.
Proof. exact canonical. Qed.
Print Assumptions C11_canonical.

Example C11_canonical_ex :
  let d1 := str "proc  main ( ) { if(a<1){x:=007;}else y:=0x0a; }" in
  let d2 := str "proc main(){if (a <1)" ++ [13; 10; 9] ++ str "{ x :=7; } else y:= 0xA;}" ++ [10; 10] in
  match lex d1, lex d2 with
  | Some t1, Some t2 => same_kinds t1 t2 /\ d1 <> d2
  | _, _ => False
  end
  /\ formatted_text d1 true 2 = Done c11_tidy /\ formatted_text d2 true 2 = Done c11_tidy.
Proof. vm_compute. repeat split; discriminate. Qed.

(* 5. Idempotence: full statement, not proved (needs: the formatted text re-parses to the same tree, C04 + C09) *)
Definition C11_idempotent_full_statement : Prop := C11_idempotent_statement.
Example C11_idempotent_full_statement_unfold :
  C11_idempotent_full_statement =
  (forall doc ins ts out, syntactically_valid doc -> formatted_text doc ins ts = Done out ->
                          format_request out ins ts = Done None).
Proof. reflexivity. Qed.

Example C11_idempotent_instance :
  formatted_text c11_messy true 2 = Done c11_tidy /\ format_request c11_tidy true 2 = Done None.
Proof. vm_compute. split; reflexivity. Qed.

(* ================================================================================================
   6. Idempotence - PROVED for comment-free programs (Proofs/FormatStruct*.v, with C04 and C06)

   For every valid abstract program p without comments ([comment_free], [aprog_valid], [prog_ok] = no dangling-else
   shape): the text the printer returns for p's tree lexes back to p's tokens (C09_tokens: structural induction over the
   printers + lexical conformance C06), those tokens parse to the same tree (C04_roundtrip), and the printers read token
   kinds only (C11_printer_reads_kinds_only) - so formatting the formatted text prints it again and the handler answers
   null.  [C11_idempotent_document] is the instance of [C11_idempotent_full_statement] for every document that is a layout
   of such a program (any whitespace, any spelling of the literals): its hypothesis `syntactically_valid doc` is replaced
   by "doc lexes to the tokens of a valid comment-free abstract program".  Open: programs with comments. *)
From Spl Require Import Spec.Grammar Proofs.PipelineText Proofs.FormatStructProg.

Theorem C11_idempotent_comment_free : forall p toks ins ts txt,
  prog_ok p = true -> comment_free p = true -> aprog_valid p = true -> map tk toks = flatten p ++ [Eof] ->
  fmt_program (options_of ins ts) (expected p) toks = FOk txt ->
  format_request txt ins ts = Done None.
Proof. exact idempotent_comment_free. Qed.
Print Assumptions C11_idempotent_comment_free.

Theorem C11_idempotent_document : forall p doc toks ins ts,
  prog_ok p = true -> comment_free p = true -> aprog_valid p = true ->
  lex doc = Some toks -> map tk toks = flatten p ++ [Eof] ->
  exists out, formatted_text doc ins ts = Done out /\ format_request out ins ts = Done None.
Proof. exact idempotent_document. Qed.
Print Assumptions C11_idempotent_document.

(* proc main() { if (a < 1) { x := 007; } else y := 0x0a; }  - the abstract program whose layouts c11_messy and c11_tidy are *)
Definition c11_f (f : afac) : acmp := CAdd (AMul (MFac f)).
Definition c11_prog : aprog :=
  {| a_decls :=
       [DProc [] [] (str "main") [] None [] [] []
          (SCons
             (SIfE [] [] (CBin (AMul (MFac (FVar (AName [] (str "a"))))) [] CLt (AMul (MFac (FLit [] (LDec 1))))) []
                (SBlk [] (SCons (SAsg (AName [] (str "x")) [] (c11_f (FLit [] (LDec 7))) []) SNil) []) []
                (SAsg (AName [] (str "y")) [] (c11_f (FLit [] (LHex 10))) []))
             SNil) []];
     a_ceof := [] |}.

Example C11_idempotent_ex :
  prog_ok c11_prog = true /\ comment_free c11_prog = true /\ aprog_valid c11_prog = true
  /\ match lex c11_messy with Some toks => map tk toks = flatten c11_prog ++ [Eof] | None => False end
  /\ formatted_text c11_messy true 2 = Done c11_tidy /\ format_request c11_tidy true 2 = Done None
  /\ format_request c11_tidy false 2 <> Done None.
Proof. vm_compute. repeat split; try reflexivity. discriminate. Qed.

(* the instance obtained THROUGH the theorem, for all ten option settings at once *)
Example C11_idempotent_document_ex : forall ins ts,
  exists out, formatted_text c11_messy ins ts = Done out /\ format_request out ins ts = Done None.
Proof.
  intros ins ts. destruct (lex c11_messy) as [toks|] eqn:El; [|vm_compute in El; discriminate].
  apply (C11_idempotent_document c11_prog c11_messy toks ins ts); try (vm_compute; reflexivity).
  - exact El.
  - vm_compute in El. injection El as <-. vm_compute. reflexivity.
Qed.

(* ================================================================================================
   7. Idempotence with comments in leading position - PROVED (Proofs/FormatStructIdem.v)

   [lead_only p] (Props/C09.v section 5): comments only in front of `type` / `proc` / `var` / a parameter / the first token of
   a statement that is not a block-as-branch.  The second run sees other comment tokens (text " " + trim s instead of s) and a
   tree with other doc fields; the printers read of a token only its printed form, whether it is a comment and whether it is a
   literal (a relational argument over all printers), never read a doc field, and `trim (" " ++ trim s) = trim s` - so the
   second run prints the same text.  This is [C11_idempotent_full_statement] for every document that is a layout of a valid
   program with comments in leading position only.  Comments in the other gaps (where the first run loses the comment or moves
   it in front of the construct): section 8. *)
From Spl Require Import Proofs.FormatStructIdem.

Theorem C11_idempotent_lead : forall p toks ins ts txt,
  prog_ok p = true -> lead_only p = true -> aprog_valid p = true -> map tk toks = flatten p ++ [Eof] ->
  fmt_program (options_of ins ts) (expected p) toks = FOk txt ->
  format_request txt ins ts = Done None.
Proof. exact idempotent_lead. Qed.
Print Assumptions C11_idempotent_lead.

Theorem C11_idempotent_document_lead : forall p doc toks ins ts,
  prog_ok p = true -> lead_only p = true -> aprog_valid p = true ->
  lex doc = Some toks -> map tk toks = flatten p ++ [Eof] ->
  exists out, formatted_text doc ins ts = Done out /\ format_request out ins ts = Done None.
Proof. exact idempotent_document_lead. Qed.
Print Assumptions C11_idempotent_document_lead.

(* //d<CR LF>proc main(//p<LF>a:int){//s<LF>if(a)//t<LF>;else//u<LF>if(a){}} *)
Definition c11_cprog : aprog :=
  {| a_decls :=
       [DProc [str "d" ++ [13]] [] (str "main") []
          (Some (PVal [str "p"] (str "a") [] (TName [] (str "int")), [])) [] [] []
          (SCons
             (SIfE [str "s"] [] (c11_f (FVar (AName [] (str "a")))) []
                (SEmp [str "t"]) []
                (SIfT [str "u"] [] (c11_f (FVar (AName [] (str "a")))) [] (SBlk [] SNil [])))
             SNil) []];
     a_ceof := [] |}.
Definition c11_cdoc : text :=
  str "//d" ++ [13; 10] ++ str "proc main(//p" ++ [10] ++ str "a:int){//s" ++ [10] ++ str "if(a)//t" ++ [10] ++ str ";else//u" ++ [10]
  ++ str "if(a){}}".
Definition c11_cout : text :=
  str "// d" ++ [10] ++ str "proc main(" ++ [10; 9] ++ str "// p" ++ [10; 9] ++ str "a: int" ++ [10] ++ str ") {" ++ [10; 9]
  ++ str "// s" ++ [10; 9] ++ str "if (a)" ++ [10; 9; 9] ++ str "// t" ++ [10; 9; 9] ++ str ";" ++ [10; 9]
  ++ str "else // u" ++ [10; 9] ++ str "if (a) {}" ++ [10] ++ str "}" ++ [10].

Example C11_idempotent_lead_ex :
  prog_ok c11_cprog = true /\ lead_only c11_cprog = true /\ aprog_valid c11_cprog = true /\ comment_free c11_cprog = false
  /\ match lex c11_cdoc with Some toks => map tk toks = flatten c11_cprog ++ [Eof] | None => False end
  /\ formatted_text c11_cdoc false 4 = Done c11_cout /\ format_request c11_cout false 4 = Done None
  /\ format_request c11_cout true 4 <> Done None.
Proof. vm_compute. repeat split; try reflexivity. discriminate. Qed.

Example C11_idempotent_document_lead_ex : forall ins ts,
  exists out, formatted_text c11_cdoc ins ts = Done out /\ format_request out ins ts = Done None.
Proof.
  intros ins ts. destruct (lex c11_cdoc) as [toks|] eqn:El; [|vm_compute in El; discriminate].
  assert (H1 : prog_ok c11_cprog = true) by (vm_compute; reflexivity).
  assert (H2 : lead_only c11_cprog = true) by (vm_compute; reflexivity).
  assert (H3 : aprog_valid c11_cprog = true) by (vm_compute; reflexivity).
  assert (H5 : map tk toks = flatten c11_cprog ++ [Eof]) by (vm_compute in El; injection El as <-; vm_compute; reflexivity).
  exact (C11_idempotent_document_lead c11_cprog c11_cdoc toks ins ts H1 H2 H3 El H5).
Qed.

(* ================================================================================================
   8. Idempotence with comments ANYWHERE - PROVED (Proofs/FormatAny*.v)

   No hypothesis on the comment slots.  The printer's result is a function [pp_prog] of the abstract program that ignores the
   comment slots no printer reads and puts the comments of an assignment / call / parameter / variable declaration in front of
   it; [kept p] (Props/C09.v section 7) is p with the comments rearranged accordingly: it is printed to the same text
   (C11_same_text), has its comments in leading positions only, is valid and has the dangling-else shape of p.  So the
   formatted text of p IS the formatted text of [kept p], and section 7 applies: formatting it again answers null.
   [C11_idempotent_document_any] is [C11_idempotent_full_statement] for every document that is a layout of a valid abstract
   program, wherever its comments stand. *)
From Spl Require Import Proofs.FormatAnyKept Proofs.FormatAnyThm.

Theorem C11_same_text : forall p toks toksk f,
  map tk toks = flatten p ++ [Eof] -> map tk toksk = flatten (kept p) ++ [Eof] ->
  fmt_program f (expected (kept p)) toksk = fmt_program f (expected p) toks.
Proof. exact fmt_kept. Qed.
Print Assumptions C11_same_text.

Theorem C11_kept_lead_only : forall p,
  aprog_valid p = true -> lead_only (kept p) = true /\ aprog_valid (kept p) = true /\ prog_ok (kept p) = prog_ok p.
Proof. intros p H. split; [apply kept_lead_only; exact H | split; [apply kept_valid; exact H | apply kept_prog_ok]]. Qed.
Print Assumptions C11_kept_lead_only.

Theorem C11_idempotent_any : forall p toks ins ts txt,
  prog_ok p = true -> aprog_valid p = true -> map tk toks = flatten p ++ [Eof] ->
  fmt_program (options_of ins ts) (expected p) toks = FOk txt ->
  format_request txt ins ts = Done None.
Proof. exact idempotent_any. Qed.
Print Assumptions C11_idempotent_any.

Theorem C11_idempotent_document_any : forall p doc toks ins ts,
  prog_ok p = true -> aprog_valid p = true ->
  lex doc = Some toks -> map tk toks = flatten p ++ [Eof] ->
  exists out, formatted_text doc ins ts = Done out /\ format_request out ins ts = Done None.
Proof. exact idempotent_document_any. Qed.
Print Assumptions C11_idempotent_document_any.

(* comments between a parameter's name and `:`, in front of `)`, inside an expression, between `if` and `(`, in front of a
   block's `}`, in front of EOF (and two in leading positions) *)
Definition c11_aprog : aprog :=
  {| a_decls :=
       [DProc [str "d"] [] (str "main") []
          (Some (PVal [] (str "a") [str " p1"] (TName [] (str "int")), [])) [str " p2"] [] []
          (SCons (SAsg (AName [] (str "x")) [] (c11_f (FLit [str " e"] (LDec 1))) [])
          (SCons (SIfT [] [str " i"] (c11_f (FVar (AName [] (str "a")))) [] (SBlk [] (SCons (SEmp [str " s"]) SNil) [str " b"])) SNil)) []];
     a_ceof := [str " eof"] |}.
Definition c11_adoc : text :=
  str "//d" ++ [10] ++ str "proc main(a// p1" ++ [10] ++ str ":int// p2" ++ [10] ++ str "){x:=// e" ++ [10] ++ str "1;if// i" ++ [10]
  ++ str "(a){// s" ++ [10] ++ str ";// b" ++ [10] ++ str "}}// eof" ++ [10].
Definition c11_aout : text :=
  str "// d" ++ [10] ++ str "proc main(" ++ [10; 9] ++ str "// p1" ++ [10; 9] ++ str "a: int" ++ [10] ++ str ") {" ++ [10; 9]
  ++ str "// e" ++ [10; 9] ++ str "x := 1;" ++ [10; 9] ++ str "if (a) {" ++ [10; 9; 9] ++ str "// s" ++ [10; 9; 9] ++ str ";" ++ [10; 9]
  ++ str "}" ++ [10] ++ str "}" ++ [10].

Example C11_idempotent_any_ex :
  prog_ok c11_aprog = true /\ lead_only c11_aprog = false /\ aprog_valid c11_aprog = true
  /\ match lex c11_adoc with Some toks => map tk toks = flatten c11_aprog ++ [Eof] | None => False end
  /\ formatted_text c11_adoc false 4 = Done c11_aout /\ format_request c11_aout false 4 = Done None
  /\ format_request c11_aout true 4 <> Done None
  /\ lead_only (kept c11_aprog) = true.
Proof. vm_compute. repeat split; try reflexivity. discriminate. Qed.

Example C11_idempotent_document_any_ex : forall ins ts,
  exists out, formatted_text c11_adoc ins ts = Done out /\ format_request out ins ts = Done None.
Proof.
  intros ins ts. destruct (lex c11_adoc) as [toks|] eqn:El; [|vm_compute in El; discriminate].
  assert (H1 : prog_ok c11_aprog = true) by (vm_compute; reflexivity).
  assert (H3 : aprog_valid c11_aprog = true) by (vm_compute; reflexivity).
  assert (H5 : map tk toks = flatten c11_aprog ++ [Eof]) by (vm_compute in El; injection El as <-; vm_compute; reflexivity).
  exact (C11_idempotent_document_any c11_aprog c11_adoc toks ins ts H1 H3 El H5).
Qed.
