(* C09 - formatting never changes the program.
   Statements only; proofs in Proofs/FormatProofs.v, model in Model/Format.v (+ Model/Lexer.v, Base/Show.v).

   PROVED here, for all inputs:
     - the edit is one edit over the whole document with a text that differs from the document (C09_whole_edit,
       C09_whole_document_covers);
     - part (B) of the design, the lexical half of "only whitespace moves": the table of all pairs of token classes
       that the printers put side by side WITHOUT a separator is free of boundary hazards (C09_glue_table, a
       vm_compute sweep), and at such a boundary the lexer cuts the glued text exactly where the printer glued it,
       giving the left token back with its kind and value (C09_glue_lift); in particular what Display prints for an
       int / hex / char literal lexes back to the same value even though the spelling may change (C09_int_roundtrip,
       C09_hex_roundtrip, C09_char_roundtrip), an identifier followed by a non-word character is that identifier
       (C09_ident_glue).
   Part (A), the structural half, is PROVED below (sections 4 and 5) for every layout of every valid program without
   comments or with leading comments only: the printers emit exactly the program's token spellings in order
   (C09_structure(_lead)), so the formatted text lexes to the same kinds and literal values (C09_tokens(_lead),
   C09_document(_lead)); and - section 6 - it PRODUCES THE SAME DIAGNOSTICS: the formatted text of a comment-free
   syntactically valid program (well-typed or not) is analysed to the same tree and the same table, and its diagnostics
   are the same messages in the same order on the same token-index ranges (C09_same_diagnostics).
   Section 7 removes the restriction on the comments for the TOKEN HALF of the property: for EVERY valid program with
   comments in ANY gaps (inside expressions, headers, declarations, in front of `}` / `else` / EOF ...) the printer does not
   panic and the formatted text lexes, without lexical error, to the same non-comment tokens - kinds and literal values, in
   order (C09_tokens_any, C09_document_any); its structure is that of [kept p], the program with the comments where the
   printer puts them (C09_structure_any; which comments are lost is C10's business).
   Section 8 does the same for the diagnostics: for EVERY valid program (comments anywhere, WELL-TYPED OR NOT) the formatted
   text is analysed to the same diagnostic MESSAGES in the same order (C09_same_messages_any), and the RANGE of every
   diagnostic covers the same non-comment tokens as the range of the corresponding diagnostic of the original document
   (C09_same_ranges_any, proofs in Proofs/FormatRanges*.v); both together: C09_same_diagnostics_any.
   STATED, NOT PROVED: the second half of C09_full_statement (`syntactically_valid out` as a statement about
   [program_clean]) for programs with comments. *)
From Coq Require Import String.
From Spl Require Import Model.Format Model.Lexer Proofs.FormatProofs.
From Spl Require Model.Doc.
Import ListNotations.
Local Open Scope N_scope.

(* 1. the edit *)
Theorem C09_whole_edit : forall doc ins ts r new,
  format_request doc ins ts = Done (Some (r, new)) ->
  r = ((0, 0), Doc.as_position (blen doc) doc) /\ new <> doc /\ formatted_text doc ins ts = Done new.
Proof. exact whole_edit. Qed.
Print Assumptions C09_whole_edit.

(* ... and that range is the whole document: under the server's own position -> index conversion (the LSP rule,
   C08) its start addresses byte 0 and its end the byte length of the document *)
Theorem C09_whole_document_covers : forall doc,
  let r := ((0, 0), Doc.as_position (blen doc) doc) in
  Doc.get_insertion_index (fst (fst r)) (snd (fst r)) doc = 0 /\
  Doc.get_insertion_index (fst (snd r)) (snd (snd r)) doc = blen doc.
Proof. exact whole_document_covers. Qed.
Print Assumptions C09_whole_document_covers.

Definition c09_doc : text := str "proc main(){" ++ [13; 10] ++ str "x:= - 007*('a'+0x0a) ;// " ++ [8364] ++ [10] ++ str "}".

Example C09_whole_edit_ex :
  format_request c09_doc true 4 =
  Done (Some (((0, 0), (2, 1)), str "proc main() {" ++ [10] ++ str "    x := -7 * ('a' + 0x0A);" ++ [10] ++ str "}" ++ [10]))
  /\ Doc.as_position (blen c09_doc) c09_doc = (2, 1) /\ blen c09_doc = 44
  /\ Doc.get_insertion_index 2 1 c09_doc = 44 /\ Doc.get_insertion_index 0 0 c09_doc = 0.
Proof. vm_compute. repeat split. Qed.

(* 2. the separator table *)
Example C09_glue_unfold :
  (forall l r, glue_ok l r =
     match l with
     | GSym k => closed_sym k
     | GId | GLit => match r with
                     | GSym k' => match static_str k' with c :: _ => negb (is_alnum_trunc c) | [] => false end
                     | _ => false
                     end
     end)
  /\ (forall k, closed_sym k = match k with
                               | LParen | RParen | LBracket | RBracket | LCurly | RCurly | EqT | NeqT | Comma | Semic
                               | Plus | Minus | Times | LeT | GeT | Assign => true
                               | _ => false
                               end)
  /\ length glue_table = 35%nat.
Proof. repeat split; intros; reflexivity. Qed.

Theorem C09_glue_table : forallb (fun lr : gclass * gclass => glue_ok (fst lr) (snd lr)) glue_table = true.
Proof. exact glue_table_ok. Qed.
Print Assumptions C09_glue_table.

(* the table is not vacuous: pairs the printers never glue are rejected *)
Example C09_glue_table_ex :
  glue_ok GId GId = false /\ glue_ok GLit GId = false /\ glue_ok GId (GSym KElse) = false
  /\ glue_ok (GSym Colon) (GSym EqT) = false /\ glue_ok (GSym Divide) (GSym Divide) = false
  /\ glue_ok (GSym Minus) (GSym Minus) = true /\ In (GSym Minus, GSym Minus) glue_table.
Proof. vm_compute. repeat split. do 30 right. tauto. Qed.

Theorem C09_glue_lift : forall l r sl k sr rest,
  glue_ok l r = true -> spelled l sl k -> right_spelling r sr ->
  lex_raw (sl ++ sr ++ rest) = Some (k, [], sl, sr ++ rest).
Proof. exact glue_lift. Qed.
Print Assumptions C09_glue_lift.

Example C09_glue_lift_ex :
  ident_ok (str "ifx") /\ spelled GId (str "ifx") (Ident (str "ifx")) /\ glue_ok GId (GSym LBracket) = true
  /\ lex_raw (str "ifx" ++ str "[" ++ str "1]") = Some (Ident (str "ifx"), [], str "ifx", str "[1]")
  /\ ~ ident_ok (str "if") /\ lex_raw (str "if[") = Some (KIf, [], str "if", str "[").
Proof.
  assert (H : ident_ok (str "ifx")) by (vm_compute; repeat split).
  split; [exact H|]. split; [constructor; exact H|]. split; [reflexivity|]. split; [reflexivity|].
  split; [|reflexivity]. intros [_ Hk]. vm_compute in Hk. discriminate.
Qed.

(* literals: Display may change the spelling (007 -> 7, 0x0a -> 0x0A) but never the value *)
Theorem C09_int_roundtrip : forall i r, i < 4294967296 -> word_end r = true ->
  lex_raw (show_kind (IntT (IntOk i)) ++ r) = Some (IntT (IntOk i), [], show_kind (IntT (IntOk i)), r).
Proof. exact int_roundtrip. Qed.
Print Assumptions C09_int_roundtrip.

Theorem C09_hex_roundtrip : forall i r, i < 4294967296 -> word_end r = true ->
  lex_raw (show_kind (HexT (IntOk i)) ++ r) = Some (HexT (IntOk i), [], show_kind (HexT (IntOk i)), r).
Proof. exact hex_roundtrip. Qed.
Print Assumptions C09_hex_roundtrip.

Theorem C09_char_roundtrip : forall c r,
  lex_raw (show_kind (CharT c) ++ r) = Some (CharT c, [], show_kind (CharT c), r).
Proof. exact lex_char_glue. Qed.
Print Assumptions C09_char_roundtrip.

Theorem C09_ident_glue : forall x r, ident_ok x -> word_end r = true -> lex_raw (x ++ r) = Some (Ident x, [], x, r).
Proof. exact lex_ident_glue. Qed.
Print Assumptions C09_ident_glue.

Example C09_literal_ex :
  lex_raw (str "007;") = Some (IntT (IntOk 7), [], str "007", str ";") /\ show_kind (IntT (IntOk 7)) = str "7"
  /\ lex_raw (str "0x0a)") = Some (HexT (IntOk 10), [], str "0x0a", str ")") /\ show_kind (HexT (IntOk 10)) = str "0x0A"
  /\ show_kind (HexT (IntOk 4660)) = str "0x1234" /\ show_kind (CharT 10) = [39; 92; 110; 39]
  /\ word_end (str ";") = true /\ word_end (str "x") = false /\ word_end [] = true.
Proof. vm_compute. repeat split. Qed.

(* 3. the full statement, not proved *)
Definition C09_full_statement : Prop := C09_statement.
Example C09_full_statement_unfold :
  C09_full_statement =
  (forall doc ins ts toks out toks',
     syntactically_valid doc -> lex doc = Some toks -> formatted_text doc ins ts = Done out -> lex out = Some toks' ->
     code_kinds toks' = code_kinds toks /\ syntactically_valid out)
  /\ (forall toks, code_kinds toks = filter (fun k => match k with Comment _ => false | _ => true end) (map tk toks)).
Proof. split; reflexivity. Qed.

(* an instance of the full statement *)
Example C09_full_statement_instance :
  match lex c09_doc, formatted_text c09_doc true 4 with
  | Some toks, Done out =>
      match lex out with
      | Some toks' => code_kinds toks' = code_kinds toks /\ length (code_kinds toks) = 18%nat
                      /\ In (IntT (IntOk 7)) (code_kinds toks) /\ In (HexT (IntOk 10)) (code_kinds toks)
      | None => False
      end
  | _, _ => False
  end.
Proof. vm_compute. repeat split; tauto. Qed.

(* ================================================================================================
   4. Part (A), the structural half - PROVED for comment-free programs (Proofs/FormatStruct*.v)

   For every abstract program p of Spec/Grammar.v without comments (all comment slots empty: [comment_free]) whose
   tokens are valid ([aprog_valid]: identifiers well-formed and no keywords, literals below 2^32), every token vector
   with the kinds of p, and every indentation unit made of blanks or tabs:
     C09_structure : the printer run on the mandated tree [expected p] returns exactly the spellings of the program's
                     tokens ([show_kind], Display for TokenType), in order, separated only by whitespace gaps that are
                     admissible in the sense of Proofs/RenderProofs.v ([gaps_ok]: a gap between two tokens is empty only
                     where the two spellings do not merge - the instances of the glue table above);
     C09_spellings : what Display prints for a token is a lexeme of the SAME kind and value; it is the canonical
                     spelling, except that a one-digit hexadecimal literal is zero padded ({:#04X});
     C09_tokens    : hence the printed text lexes to the program's tokens - same kinds, same values, no lexical error;
     C09_document  : from a document: a text that lexes to the tokens of such a program (and [prog_ok]: the dangling-else
                     shape, needed for the parser round trip C04) is formatted to a text with the same token kinds.
   Of [C09_full_statement] this proves the token half (`code_kinds toks' = code_kinds toks`) for all documents that are
   layouts of valid comment-free programs; programs with comments: sections 5 (leading positions, comments preserved) and
   7 (anywhere); open: "syntactically_valid out" as a statement about [program_clean]. *)
From Spl Require Import Spec.Grammar Proofs.LexerProofs Proofs.RenderProofs Proofs.PipelineText
  Proofs.FormatStructText Proofs.FormatStructProg.
From Spl Require Spec.LexSpec.

Example C09_comment_free_unfold :
  (forall p, comment_free p = forallb (fun k => negb (match k with Comment _ => true | _ => false end)) (flatten p))
  /\ (forall p, aprog_valid p = forallb valid_kind (flatten p))
  /\ (forall k, nice k = valid_kind k && negb (match k with Comment _ => true | _ => false end)).
Proof. repeat split; reflexivity. Qed.

Theorem C09_structure : forall p toks f,
  (ind_sym f = 32 \/ ind_sym f = 9) -> comment_free p = true -> aprog_valid p = true ->
  map tk toks = flatten p ++ [Eof] ->
  exists txt gaps,
    fmt_program f (expected p) toks = FOk txt /\
    txt = weave gaps (map show_kind (flatten p)) /\
    gaps_ok (flatten p) gaps /\
    Forall (fun g => forallb is_ws g = true) gaps /\
    hd [] gaps = [] /\ (flatten p <> [] -> last gaps [] = [10]).
Proof. exact structure. Qed.
Print Assumptions C09_structure.

Theorem C09_spellings : forall k, nice k = true ->
  LexSpec.Lexeme k (show_kind k) /\
  (show_kind k = spelling k \/
   exists v a, k = HexT (IntOk v) /\ spelling k = [48; 120; a] /\ show_kind k = [48; 120; 48; a]).
Proof. exact spellings. Qed.
Print Assumptions C09_spellings.

Theorem C09_tokens : forall p toks f txt,
  (ind_sym f = 32 \/ ind_sym f = 9) -> comment_free p = true -> aprog_valid p = true ->
  map tk toks = flatten p ++ [Eof] ->
  fmt_program f (expected p) toks = FOk txt ->
  exists toks', lex txt = Some toks' /\ map tk toks' = flatten p ++ [Eof] /\ Forall (fun t => terr t = []) toks'.
Proof. exact tokens. Qed.
Print Assumptions C09_tokens.

Theorem C09_document : forall p doc toks ins ts,
  prog_ok p = true -> comment_free p = true -> aprog_valid p = true ->
  lex doc = Some toks -> map tk toks = flatten p ++ [Eof] ->
  exists txt toks',
    formatted_text doc ins ts = Done txt /\
    lex txt = Some toks' /\ map tk toks' = map tk toks /\
    format_request txt ins ts = Done None.
Proof. exact format_document. Qed.
Print Assumptions C09_document.

(* proc main(a: int, ref b: array [0x0a] of int) { var x: int;
     if (a < - -1) x := 007 * (b[0] + 'c'); else if (a = 2) {} else main(a, b); }   - without any comment *)
Definition c09_v (s : string) : avar := AName [] (str s).
Definition c09_f (f : afac) : acmp := CAdd (AMul (MFac f)).
Definition c09_int : atype := TName [] (str "int").
Definition c09_prog : aprog :=
  {| a_decls :=
       [DProc [] [] (str "main") []
          (Some (PVal [] (str "a") [] c09_int,
                 [([], PRef [] [] (str "b") [] (TArr [] [] [] (LHex 10) [] [] c09_int))])) [] []
          [{| v_c1 := []; v_c2 := []; v_x := str "x"; v_c3 := []; v_t := c09_int; v_c4 := [] |}]
          (SCons
             (SIfE [] [] (CBin (AMul (MFac (FVar (c09_v "a")))) [] CLt (AMul (MFac (FNeg [] (FNeg [] (FLit [] (LDec 1))))))) []
                (SAsg (c09_v "x") []
                   (CAdd (AMul (MBin (MFac (FLit [] (LDec 7))) [] MTimes
                      (FPar [] (CAdd (ABin (AMul (MFac (FVar (AIndex (c09_v "b") [] (c09_f (FLit [] (LDec 0))) []))))
                                           [] APlus (MFac (FLit [] (LChr 99))))) [])))) [])
                []
                (SIfE [] [] (CBin (AMul (MFac (FVar (c09_v "a")))) [] CEq (AMul (MFac (FLit [] (LDec 2))))) []
                   (SBlk [] SNil []) []
                   (SCal [] (str "main") [] (Some (c09_f (FVar (c09_v "a")), [([], c09_f (FVar (c09_v "b")))])) [] [])))
             SNil) []];
     a_ceof := [] |}.
Definition c09_mk (k : kind) : token := {| tk := k; ts := 0; te := 0; terr := [] |}.
Definition c09_out : text :=
  str "proc main(a: int, ref b: array [0x0A] of int) {" ++ [10] ++ str "  var x: int;" ++ [10; 10]
  ++ str "  if (a < --1)" ++ [10] ++ str "    x := 7 * (b[0] + 'c');" ++ [10]
  ++ str "  else if (a = 2) {}" ++ [10] ++ str "  else" ++ [10] ++ str "    main(a, b);" ++ [10] ++ str "}" ++ [10].

(* the hypotheses hold for the example, and the conclusions are what the theorems say *)
Example C09_structure_ex :
  comment_free c09_prog = true /\ aprog_valid c09_prog = true /\ prog_ok c09_prog = true
  /\ length (flatten c09_prog) = 62%nat
  /\ fmt_program (options_of true 2) (expected c09_prog) (map c09_mk (flatten c09_prog ++ [Eof])) = FOk c09_out
  /\ match lex c09_out with
     | Some toks' => map tk toks' = flatten c09_prog ++ [Eof]
     | None => False
     end
  /\ In (HexT (IntOk 10)) (flatten c09_prog) /\ show_kind (HexT (IntOk 10)) = str "0x0A" /\ spelling (HexT (IntOk 10)) = str "0xA"
  /\ comment_free {| a_decls := []; a_ceof := [str " c"] |} = false.
Proof. vm_compute. repeat split; try reflexivity. repeat (first [left; reflexivity | right]). Qed.

(* the instance of C09_tokens obtained THROUGH the theorem *)
Example C09_tokens_ex :
  exists toks', lex c09_out = Some toks' /\ map tk toks' = flatten c09_prog ++ [Eof] /\ Forall (fun t => terr t = []) toks'.
Proof.
  apply (C09_tokens c09_prog (map c09_mk (flatten c09_prog ++ [Eof])) (options_of true 2) c09_out).
  - left. reflexivity.
  - vm_compute. reflexivity.
  - vm_compute. reflexivity.
  - rewrite map_map. apply map_id.
  - vm_compute. reflexivity.
Qed.

(* ================================================================================================
   5. Part (A) with comments in LEADING position - PROVED (this is also the comment half of C10 for these gaps)

   [lead_only p]: the only non-empty comment slots of p are the ones in front of `type` / `proc` (doc comments), in front of
   `var`, in front of a parameter, and in front of the first token of a statement - except in front of the `{` of a block that
   is the branch of an if / while (fmt_branch drops those: known findings C10-gap-lead:block@then|else|loop).  For such programs
   the printer returns the printed forms of ALL tokens of the program, comments included, in the original order: every comment
   with text s is emitted exactly once, as the line "// " + trim s + LF ([show_kind (Comment s)]), and the text lexes to the same
   tokens, a comment with text s becoming the comment with text " " + trim s ([canon]).
   Not covered HERE: comments inside assignments / calls / parameters / variable declarations (the printer moves them in front of
   the construct, so the token ORDER changes) and the gaps where the printer loses the comment (C10) - for those see section 7,
   which proves the non-comment half for every valid program. *)
From Spl Require Import Proofs.FormatStructExpr Proofs.FormatStructStmt.

Example C09_lead_only_unfold :
  (forall p, lead_only p = forallb lo_decl (a_decls p) && is_nil (a_ceof p))
  /\ (forall c1 c2 x c3 t c4, lo_decl (DType c1 c2 x c3 t c4) =
        forallb nice (KType :: cm c2 ++ Ident x :: cm c3 ++ EqT :: fl_type t ++ cm c4 ++ [Semic]))
  /\ (forall c1 c2 x c3 ps c4 c5 vs b c6, lo_decl (DProc c1 c2 x c3 ps c4 c5 vs b c6) =
        forallb nice (KProc :: cm c2 ++ Ident x :: cm c3 ++ [LParen]) && lo_params ps && is_nil c4 && is_nil c5
        && forallb lo_vardecl vs && lo_stmts b && is_nil c6)
  /\ (forall c x cc t, lo_param (PVal c x cc t) = forallb nice (Ident x :: cm cc ++ Colon :: fl_type t))
  /\ (forall v, lo_vardecl v =
        forallb nice (KVar :: cm (v_c2 v) ++ Ident (v_x v) :: cm (v_c3 v) ++ Colon :: fl_type (v_t v) ++ cm (v_c4 v) ++ [Semic]))
  /\ (forall c, lo_stmt (SEmp c) = true)
  /\ (forall v c1 e c2, lo_stmt (SAsg v c1 e c2) = forallb nice (var_code v ++ cm c1 ++ Assign :: fl_cmp e ++ cm c2 ++ [Semic]))
  /\ (forall c1 c2 e c3 t, lo_stmt (SIfT c1 c2 e c3 t) =
        forallb nice (KIf :: cm c2 ++ LParen :: fl_cmp e ++ cm c3 ++ [RParen]) && lo_branch t)
  /\ (forall t, lo_branch t = match t with SBlk c1 b c2 => is_nil c1 && is_nil c2 && lo_stmts b | _ => lo_stmt t end)
  /\ (forall c1 b c2, lo_stmt (SBlk c1 b c2) = lo_stmts b && is_nil c2)
  /\ (forall s, canon (Comment s) = Comment (32 :: trim s)) /\ canon KIf = KIf /\ (forall x, canon (Ident x) = Ident x)
  /\ (forall s, show_kind (Comment s) = [47; 47; 32] ++ trim s ++ [10]).
Proof. repeat split; reflexivity. Qed.

Theorem C09_structure_lead : forall p toks f,
  (ind_sym f = 32 \/ ind_sym f = 9) -> lead_only p = true -> aprog_valid p = true ->
  map tk toks = flatten p ++ [Eof] ->
  exists txt gaps,
    fmt_program f (expected p) toks = FOk txt /\
    txt = weave gaps (map show_kind (flatten p)) /\
    gaps_ok (flatten p) gaps /\
    Forall (fun g => forallb is_ws g = true) gaps /\
    hd [] gaps = [] /\ (flatten p <> [] -> last gaps [] = [10]).
Proof. exact structure_lead. Qed.
Print Assumptions C09_structure_lead.

Theorem C09_tokens_lead : forall p toks f txt,
  (ind_sym f = 32 \/ ind_sym f = 9) -> lead_only p = true -> aprog_valid p = true ->
  map tk toks = flatten p ++ [Eof] ->
  fmt_program f (expected p) toks = FOk txt ->
  exists toks', lex txt = Some toks' /\ map tk toks' = map canon (flatten p) ++ [Eof] /\ Forall (fun t => terr t = []) toks'.
Proof. exact tokens_lead. Qed.
Print Assumptions C09_tokens_lead.

(* every comment-free program is a lead_only program *)
Theorem C09_comment_free_lead_only : forall p, comment_free p = true -> aprog_valid p = true -> lead_only p = true.
Proof. exact comment_free_lead_only. Qed.
Print Assumptions C09_comment_free_lead_only.

(* //  doc t <CR>
   type t = int;
   //d1
   // d2
   proc f(// pa
          a: int, ref b: t) {
     // dv
     var x: int;
     //s1
     x[0] := 1;
     // s2
     if (a) // s3
       f(a, b);
     else // s4
       if (b) { //s5
         ; } else //s6
         while (a) {} } *)
Definition c09_cprog : aprog :=
  {| a_decls :=
       [DType [str "  doc t " ++ [13]] [] (str "t") [] c09_int [];
        DProc [str "d1"; str " d2"] [] (str "f") []
          (Some (PVal [str " pa"] (str "a") [] c09_int, [([], PRef [] [] (str "b") [] (TName [] (str "t")))])) [] []
          [{| v_c1 := [str " dv"]; v_c2 := []; v_x := str "x"; v_c3 := []; v_t := c09_int; v_c4 := [] |}]
          (SCons (SAsg (AIndex (AName [str "s1"] (str "x")) [] (c09_f (FLit [] (LDec 0))) []) [] (c09_f (FLit [] (LDec 1))) [])
          (SCons (SIfE [str " s2"] [] (c09_f (FVar (c09_v "a"))) []
                    (SCal [str " s3"] (str "f") [] (Some (c09_f (FVar (c09_v "a")), [([], c09_f (FVar (c09_v "b")))])) [] []) []
                    (SIfE [str " s4"] [] (c09_f (FVar (c09_v "b"))) []
                       (SBlk [] (SCons (SEmp [str "s5"]) SNil) []) []
                       (SWhl [str "s6"] [] (c09_f (FVar (c09_v "a"))) [] (SBlk [] SNil []))))
           SNil)) []];
     a_ceof := [] |}.

Definition c09_cout : text :=
  str "// doc t" ++ [10] ++ str "type t = int;" ++ [10; 10]
  ++ str "// d1" ++ [10] ++ str "// d2" ++ [10] ++ str "proc f(" ++ [10] ++ str "  // pa" ++ [10] ++ str "  a: int," ++ [10]
  ++ str "  ref b: t" ++ [10] ++ str ") {" ++ [10]
  ++ str "  // dv" ++ [10] ++ str "  var x: int;" ++ [10; 10]
  ++ str "  // s1" ++ [10] ++ str "  x[0] := 1;" ++ [10]
  ++ str "  // s2" ++ [10] ++ str "  if (a)" ++ [10] ++ str "    // s3" ++ [10] ++ str "    f(a, b);" ++ [10]
  ++ str "  else // s4" ++ [10] ++ str "  if (b) {" ++ [10] ++ str "    // s5" ++ [10] ++ str "    ;" ++ [10]
  ++ str "  } else" ++ [10] ++ str "    // s6" ++ [10] ++ str "    while (a) {}" ++ [10] ++ str "}" ++ [10].

Example C09_structure_lead_ex :
  lead_only c09_cprog = true /\ aprog_valid c09_cprog = true /\ prog_ok c09_cprog = true /\ comment_free c09_cprog = false
  /\ fmt_program (options_of true 2) (expected c09_cprog) (map c09_mk (flatten c09_cprog ++ [Eof])) = FOk c09_cout
  /\ match lex c09_cout with
     | Some toks' => map tk toks' = map canon (flatten c09_cprog) ++ [Eof]
     | None => False
     end
  /\ length (filter (fun k => match k with Comment _ => true | _ => false end) (flatten c09_cprog)) = 11%nat
  (* not lead_only: a comment in front of a block that is a branch, a comment in front of a closing brace *)
  /\ lead_only {| a_decls := [DProc [] [] (str "f") [] None [] [] []
                               (SCons (SWhl [] [] (c09_f (FVar (c09_v "a"))) [] (SBlk [str "c"] SNil [])) SNil) []]; a_ceof := [] |} = false
  /\ lead_only {| a_decls := [DProc [] [] (str "f") [] None [] [] [] SNil [str "c"]]; a_ceof := [] |} = false.
Proof. vm_compute. repeat split; reflexivity. Qed.

(* from a document: every text that lexes to the tokens of a valid program with comments in leading position only is
   formatted to a text with the same non-comment tokens AND the same comments (trimmed texts, in order, each exactly once).
   This is [C09_full_statement]'s token half and the conclusion of [C10_statement] (Proofs/FormatProofs.v) for these documents. *)
Example C09_code_comment_unfold :
  (forall toks, code_kinds toks = filter (fun k => match k with Comment _ => false | _ => true end) (map tk toks))
  /\ (forall toks, comment_bodies toks = flat_map (fun t => match tk t with Comment s => [trim s] | _ => [] end) toks).
Proof. split; reflexivity. Qed.

Theorem C09_document_lead : forall p doc toks ins ts,
  prog_ok p = true -> lead_only p = true -> aprog_valid p = true ->
  lex doc = Some toks -> map tk toks = flatten p ++ [Eof] ->
  exists txt toks',
    formatted_text doc ins ts = Done txt /\ lex txt = Some toks' /\
    code_kinds toks' = code_kinds toks /\ comment_bodies toks' = comment_bodies toks /\
    Forall (fun t => terr t = []) toks'.
Proof. exact document_lead. Qed.
Print Assumptions C09_document_lead.

(* a messy layout of c09_cprog *)
Definition c09_cdoc : text :=
  str "//  doc t " ++ [13; 10] ++ str "type t=int;//d1" ++ [10] ++ str "// d2" ++ [10] ++ str "proc f(// pa" ++ [10]
  ++ str "a:int,ref b:t){// dv" ++ [10] ++ str "var x:int;//s1" ++ [10] ++ str "x[0]:=1;// s2" ++ [10] ++ str "if(a)// s3" ++ [10]
  ++ str "f(a,b);else// s4" ++ [10] ++ str "if(b){//s5" ++ [10] ++ str ";}else//s6" ++ [10] ++ str "while(a){}}".

Example C09_document_lead_ex :
  match lex c09_cdoc with Some toks => map tk toks = flatten c09_cprog ++ [Eof] | None => False end
  /\ formatted_text c09_cdoc true 2 = Done c09_cout
  /\ match lex c09_cdoc, lex c09_cout with
     | Some toks, Some toks' =>
         comment_bodies toks' = comment_bodies toks
         /\ comment_bodies toks = [str "doc t"; str "d1"; str "d2"; str "pa"; str "dv"; str "s1"; str "s2"; str "s3"; str "s4"; str "s5"; str "s6"]
     | _, _ => False
     end.
Proof. vm_compute. repeat split; reflexivity. Qed.

(* ... and the instance obtained THROUGH the theorem, for all option settings *)
Example C09_document_lead_thm_ex : forall ins ts,
  exists txt toks', formatted_text c09_cdoc ins ts = Done txt /\ lex txt = Some toks' /\
    comment_bodies toks' = [str "doc t"; str "d1"; str "d2"; str "pa"; str "dv"; str "s1"; str "s2"; str "s3"; str "s4"; str "s5"; str "s6"].
Proof.
  intros ins ts. destruct (lex c09_cdoc) as [toks|] eqn:El; [|vm_compute in El; discriminate].
  assert (H1 : prog_ok c09_cprog = true) by (vm_compute; reflexivity).
  assert (H2 : lead_only c09_cprog = true) by (vm_compute; reflexivity).
  assert (H3 : aprog_valid c09_cprog = true) by (vm_compute; reflexivity).
  assert (H5 : map tk toks = flatten c09_cprog ++ [Eof]) by (vm_compute in El; injection El as <-; vm_compute; reflexivity).
  assert (H6 : comment_bodies toks = [str "doc t"; str "d1"; str "d2"; str "pa"; str "dv"; str "s1"; str "s2"; str "s3"; str "s4"; str "s5"; str "s6"])
    by (vm_compute in El; injection El as <-; vm_compute; reflexivity).
  destruct (C09_document_lead c09_cprog c09_cdoc toks ins ts H1 H2 H3 El H5) as (txt & toks' & E1 & E2 & _ & E4 & _).
  exists txt, toks'. split; [exact E1|]. split; [exact E2|]. rewrite E4. exact H6.
Qed.

(* ================================================================================================
   6. "... and which produces the same diagnostics" (Proofs/FormatSameDiag.v)

   Parser, table build and semantic analysis read token kinds only and address tokens by index; every diagnostic
   lives in the tree as (token-index range, message).  For every layout of every syntactically valid comment-free
   program - WELL-TYPED OR NOT, so with any number of semantic diagnostics - the formatted text is analysed to the same
   tree and table, and AnalyzedSource::errors() returns the same messages in the same order; the byte range of each is
   computed from the tokens with the same indices, which are the same tokens (same kinds and values, C09_document). *)
From Spl Require Model.Table Model.Errors Proofs.FormatSameDiag.

Theorem C09_same_diagnostics : forall p doc toks ins ts,
  prog_ok p = true -> comment_free p = true -> aprog_valid p = true ->
  lex doc = Some toks -> map tk toks = flatten p ++ [Eof] ->
  exists txt d d',
    formatted_text doc ins ts = Done txt /\
    Errors.new_doc_res doc = Errors.ODone d /\ Errors.new_doc_res txt = Errors.ODone d' /\
    map tk (Errors.d_toks d') = map tk (Errors.d_toks d) /\
    Errors.d_ast d' = Errors.d_ast d /\ Errors.d_table d' = Errors.d_table d /\
    Errors.tree_errors (Errors.d_ast d') = Errors.tree_errors (Errors.d_ast d) /\
    forall l, Errors.doc_errors_res d = Table.ROk l -> exists l', Errors.doc_errors_res d' = Table.ROk l' /\ map snd l' = map snd l.
Proof. exact FormatSameDiag.format_same_diagnostics. Qed.
Print Assumptions C09_same_diagnostics.

(* non-vacuity: an ill-typed comment-free program (`x` undeclared, `main` missing) keeps its two diagnostics *)
Definition c09_bad_doc : text := str "proc f(){x:=1 ;}".
Example C09_same_diagnostics_ex :
  match Errors.new_doc_res c09_bad_doc, formatted_text c09_bad_doc true 4 with
  | Errors.ODone d, Done txt =>
      match Errors.new_doc_res txt, Errors.doc_errors_res d with
      | Errors.ODone d', Table.ROk l => exists l', Errors.doc_errors_res d' = Table.ROk l' /\ map snd l' = map snd l /\ length l = 2%nat /\ txt <> c09_bad_doc
      | _, _ => False
      end
  | _, _ => False
  end.
Proof. vm_compute. eexists. repeat split; try reflexivity. discriminate. Qed.

(* ================================================================================================
   7. Part (A) with comments ANYWHERE - the token half of C09 for every valid program (Proofs/FormatAny*.v)

   No hypothesis on the comment slots.  [pp_prog f p] (Proofs/FormatAnyPP.v, FormatAnyProg.v) is a printer over the abstract
   syntax that treats the comment slots the way the Rust printers treat the token slices: expressions, variables and type
   expressions print no comment (IntLiteral searches its slice for the literal and skips comments); `;`, assignments, calls,
   parameters and variable declarations print ALL comments of their token range in front of the construct
   (add_all_comments); if / while / blocks / type and procedure declarations print the comments in front of their first token
   only (add_leading_comments); fmt_branch prints none for a block; nothing prints the comments in front of EOF.
     C09_printer_any   : on the mandated tree and any token vector with the program's kinds the printer returns [pp_prog f p]
                         - in particular it never panics (no validity needed);
     C09_kept_*        : [kept p] - p with every unprinted slot emptied and the hoisted comments moved in front of their
                         construct - is printed to the same text, has its comments in leading positions only (section 5), is
                         valid when p is, and has the same non-comment tokens in the same order and no new comment;
     C09_structure_any : so the formatted text is the printed forms of the tokens of [kept p] woven with admissible whitespace;
     C09_tokens_any    : it lexes, without lexical error, to the same non-comment kinds and values as p;
     C09_document_any  : from a document: EVERY text that lexes to the tokens of a valid program (any comments) is formatted
                         to a text with the same non-comment tokens.  This is the token half of [C09_full_statement] for all
                         layouts of all valid abstract programs.
   No defect was found: hoisted comments are always printed as "// " + trimmed text + LF, so no token can be swallowed. *)
From Spl Require Import Proofs.FormatAnyPP Proofs.FormatAnyProg Proofs.FormatAnyKept Proofs.FormatAnyThm.

Example C09_kept_unfold :
  (forall p, kept p = {| a_decls := map k_decl (a_decls p); a_ceof := [] |})
  /\ (forall c1 c2 x c3 t c4, k_decl (DType c1 c2 x c3 t c4) = DType c1 [] x [] (s_type t) [])
  /\ (forall c1 c2 x c3 ps c4 c5 vs b c6,
        k_decl (DProc c1 c2 x c3 ps c4 c5 vs b c6) = DProc c1 [] x [] (s_sep k_param ps) [] [] (map k_vardecl vs) (k_stmts b) [])
  /\ (forall c x cc t, k_param (PVal c x cc t) = PVal (cmts (fl_param (PVal c x cc t))) x [] (s_type t))
  /\ (forall v, k_vardecl v = {| v_c1 := cmts (fl_vardecl v); v_c2 := []; v_x := v_x v; v_c3 := []; v_t := s_type (v_t v); v_c4 := [] |})
  /\ (forall c, k_stmt (SEmp c) = SEmp c)
  /\ (forall v c1 e c2, k_stmt (SAsg v c1 e c2) = SAsg (set_lead (cmts (fl_stmt (SAsg v c1 e c2))) (s_var v)) [] (s_cmp e) [])
  /\ (forall c1 f c2 a c3 c4, k_stmt (SCal c1 f c2 a c3 c4) = SCal (cmts (fl_stmt (SCal c1 f c2 a c3 c4))) f [] (s_sep s_cmp a) [] [])
  /\ (forall c1 c2 e c3 t, k_stmt (SIfT c1 c2 e c3 t) = SIfT c1 [] (s_cmp e) [] (k_branch t))
  /\ (forall c1 c2 e c3 t c4 s, k_stmt (SIfE c1 c2 e c3 t c4 s) = SIfE c1 [] (s_cmp e) [] (k_branch t) [] (k_branch s))
  /\ (forall c1 c2 e c3 t, k_stmt (SWhl c1 c2 e c3 t) = SWhl c1 [] (s_cmp e) [] (k_branch t))
  /\ (forall c1 b c2, k_stmt (SBlk c1 b c2) = SBlk c1 (k_stmts b) [])
  /\ (forall t, k_branch t = match t with SBlk _ b _ => SBlk [] (k_stmts b) [] | _ => k_stmt t end)
  /\ (forall c x, s_var (AName c x) = AName [] x) /\ (forall c l, s_fac (FLit c l) = FLit [] l)
  /\ (forall c1 e c2, s_fac (FPar c1 e c2) = FPar [] (s_cmp e) [])
  /\ (forall ks, cmts ks = flat_map (fun k => match k with Comment s => [s] | _ => [] end) ks)
  /\ (forall ks, code ks = filter (fun k => negb (match k with Comment _ => true | _ => false end)) ks).
Proof. repeat split; reflexivity. Qed.

(* the printer on the mandated tree: total, and a function of the abstract program *)
Theorem C09_printer_any : forall f p toks,
  map tk toks = flatten p ++ [Eof] -> fmt_program f (expected p) toks = FOk (pp_prog f p).
Proof. exact fmt_program_pp. Qed.
Print Assumptions C09_printer_any.

Theorem C09_kept_same_text : forall f p, pp_prog f (kept p) = pp_prog f p.
Proof. exact pp_kept. Qed.
Print Assumptions C09_kept_same_text.

Theorem C09_kept_lead_only : forall p, aprog_valid p = true -> lead_only (kept p) = true /\ aprog_valid (kept p) = true.
Proof. intros p H. split; [apply kept_lead_only | apply kept_valid]; exact H. Qed.
Print Assumptions C09_kept_lead_only.

Theorem C09_kept_tokens : forall p,
  code (flatten (kept p)) = code (flatten p) /\ incl (cmts (flatten (kept p))) (cmts (flatten p)) /\ prog_ok (kept p) = prog_ok p.
Proof. intros p. split; [apply kept_code | split; [apply kept_comments | apply kept_prog_ok]]. Qed.
Print Assumptions C09_kept_tokens.

Theorem C09_structure_any : forall p toks f,
  (ind_sym f = 32 \/ ind_sym f = 9) -> aprog_valid p = true -> map tk toks = flatten p ++ [Eof] ->
  exists txt gaps,
    fmt_program f (expected p) toks = FOk txt /\
    txt = weave gaps (map show_kind (flatten (kept p))) /\
    gaps_ok (flatten (kept p)) gaps /\
    code (flatten (kept p)) = code (flatten p) /\ incl (cmts (flatten (kept p))) (cmts (flatten p)) /\
    Forall (fun g => forallb is_ws g = true) gaps.
Proof. exact structure_any. Qed.
Print Assumptions C09_structure_any.

Theorem C09_tokens_any : forall p toks f txt,
  (ind_sym f = 32 \/ ind_sym f = 9) -> aprog_valid p = true -> map tk toks = flatten p ++ [Eof] ->
  fmt_program f (expected p) toks = FOk txt ->
  exists toks', lex txt = Some toks' /\ code_kinds toks' = code_kinds toks /\ Forall (fun t => terr t = []) toks'.
Proof. exact tokens_any. Qed.
Print Assumptions C09_tokens_any.

Theorem C09_total_any : forall p toks f, map tk toks = flatten p ++ [Eof] -> exists txt, fmt_program f (expected p) toks = FOk txt.
Proof. exact total_any. Qed.
Print Assumptions C09_total_any.

Theorem C09_document_any : forall p doc toks ins ts,
  prog_ok p = true -> aprog_valid p = true -> lex doc = Some toks -> map tk toks = flatten p ++ [Eof] ->
  exists txt toks',
    formatted_text doc ins ts = Done txt /\ lex txt = Some toks' /\
    code_kinds toks' = code_kinds toks /\ Forall (fun t => terr t = []) toks'.
Proof. exact document_any. Qed.
Print Assumptions C09_document_any.

(* ... and the comments of the formatted text are exactly those of [kept p], trimmed, in order *)
Theorem C09_comments_any : forall p toks f txt toks',
  (ind_sym f = 32 \/ ind_sym f = 9) -> aprog_valid p = true -> map tk toks = flatten p ++ [Eof] ->
  fmt_program f (expected p) toks = FOk txt -> lex txt = Some toks' ->
  comment_bodies toks' = map trim (cmts (flatten (kept p))).
Proof. exact comments_any. Qed.
Print Assumptions C09_comments_any.

(* comments in 19 gaps, 15 of them not leading: inside a type declaration, between a parameter's name and `:`, in front of a
   comma, after `ref`, in front of `)` and `{` of the procedure header, inside a variable declaration (twice), inside an
   expression, between `if` and `(`, inside the condition, in front of a block that is a branch, in front of its `}`, in
   front of `else`, inside an argument list, in front of the procedure's `}`, in front of EOF *)
Definition c09_aprog : aprog :=
  {| a_decls :=
       [DType [] [] (str "t") [] (TName [str " ct"] (str "int")) [];
        DProc [] [] (str "f") []
          (Some (PVal [] (str "a") [str " pa"] c09_int, [([str " pb"], PRef [] [str " pc"] (str "b") [] (TName [] (str "t")))]))
          [str " pd"] [str " pe"]
          [{| v_c1 := []; v_c2 := []; v_x := str "x"; v_c3 := [str " va"]; v_t := c09_int; v_c4 := [str " vb"] |}]
          (SCons (SAsg (c09_v "x") [] (CAdd (ABin (AMul (MFac (FLit [] (LDec 1)))) [] APlus (MFac (FLit [str " e1"] (LDec 2))))) [])
          (SCons (SIfE [] [str " i1"] (c09_f (FVar (c09_v "a"))) [str " i2"]
                    (SBlk [str " i3"] (SCons (SEmp [str " s5"]) SNil) [str " b2"]) [str " c4"]
                    (SCal [str " l1"] (str "f") [] (Some (c09_f (FVar (c09_v "a")), [([], c09_f (FVar (AName [str " arg"] (str "b"))))])) [] []))
           SNil))
          [str " c6"]];
     a_ceof := [str " eof"] |}.

Definition c09_adoc : text :=
  str "type t=// ct" ++ [10] ++ str "int;proc f(a// pa" ++ [10] ++ str ":int// pb" ++ [10] ++ str ",ref// pc" ++ [10] ++ str "b:t// pd" ++ [10]
  ++ str ")// pe" ++ [10] ++ str "{var x// va" ++ [10] ++ str ":int// vb" ++ [10] ++ str ";x:=1+// e1" ++ [10] ++ str "2;if// i1" ++ [10]
  ++ str "(a// i2" ++ [10] ++ str ")// i3" ++ [10] ++ str "{// s5" ++ [10] ++ str ";// b2" ++ [10] ++ str "}// c4" ++ [10] ++ str "else// l1" ++ [10]
  ++ str "f(a,// arg" ++ [10] ++ str "b);// c6" ++ [10] ++ str "}// eof" ++ [10].

Definition c09_aout : text :=
  str "type t = int;" ++ [10; 10]
  ++ str "proc f(" ++ [10] ++ str "  // pa" ++ [10] ++ str "  a: int," ++ [10] ++ str "  // pc" ++ [10] ++ str "  ref b: t" ++ [10] ++ str ") {" ++ [10]
  ++ str "  // va" ++ [10] ++ str "  // vb" ++ [10] ++ str "  var x: int;" ++ [10; 10]
  ++ str "  // e1" ++ [10] ++ str "  x := 1 + 2;" ++ [10]
  ++ str "  if (a) {" ++ [10] ++ str "    // s5" ++ [10] ++ str "    ;" ++ [10] ++ str "  } else" ++ [10]
  ++ str "    // l1" ++ [10] ++ str "    // arg" ++ [10] ++ str "    f(a, b);" ++ [10] ++ str "}" ++ [10].

Example C09_any_ex :
  lead_only c09_aprog = false /\ aprog_valid c09_aprog = true /\ prog_ok c09_aprog = true
  /\ length (cmts (flatten c09_aprog)) = 19%nat /\ length (code (flatten c09_aprog)) = 45%nat
  /\ match lex c09_adoc with Some toks => map tk toks = flatten c09_aprog ++ [Eof] | None => False end
  /\ formatted_text c09_adoc true 2 = Done c09_aout
  /\ pp_prog (options_of true 2) c09_aprog = c09_aout
  /\ match lex c09_adoc, lex c09_aout with
     | Some toks, Some toks' =>
         code_kinds toks' = code_kinds toks /\ length (code_kinds toks) = 46%nat
         /\ comment_bodies toks' = [str "pa"; str "pc"; str "va"; str "vb"; str "e1"; str "s5"; str "l1"; str "arg"]
     | _, _ => False
     end
  /\ cmts (flatten (kept c09_aprog)) = [str " pa"; str " pc"; str " va"; str " vb"; str " e1"; str " s5"; str " l1"; str " arg"]
  /\ lead_only (kept c09_aprog) = true.
Proof. vm_compute. repeat split; reflexivity. Qed.

(* ... and the instance obtained THROUGH the theorem, for all option settings *)
Example C09_document_any_thm_ex : forall ins ts,
  exists txt toks', formatted_text c09_adoc ins ts = Done txt /\ lex txt = Some toks' /\
    match lex c09_adoc with Some toks => code_kinds toks' = code_kinds toks | None => False end /\
    Forall (fun t => terr t = []) toks'.
Proof.
  intros ins ts. destruct (lex c09_adoc) as [toks|] eqn:El; [|vm_compute in El; discriminate].
  assert (H1 : prog_ok c09_aprog = true) by (vm_compute; reflexivity).
  assert (H3 : aprog_valid c09_aprog = true) by (vm_compute; reflexivity).
  assert (H5 : map tk toks = flatten c09_aprog ++ [Eof]) by (vm_compute in El; injection El as <-; vm_compute; reflexivity).
  destruct (C09_document_any c09_aprog c09_adoc toks ins ts H1 H3 El H5) as (txt & toks' & E1 & E2 & E3 & E4).
  exists txt, toks'. repeat split; assumption.
Qed.

(* ================================================================================================
   8. "... and which produces the same diagnostics", with comments ANYWHERE (Proofs/FormatDiag*.v)

   The formatted text of a layout of p is a layout of [kept p] with canonical comment texts (section 7), so by the C04 round
   trip the two documents are parsed to the trees mandated for p and for that program.  Their token INDICES differ (comments
   were dropped or moved), so the trees differ in every range and offset, and in the doc comments.  But table build and
   semantic analysis read names, literal values, operators and structure only: ranges, offsets and doc comments are merely
   copied (into error ranges and table entries) - [er_*] of Proofs/FormatDiagErase.v forgets exactly these, the analysis of
   every construct commutes with it (FormatDiagErase.v, FormatDiagSem.v), and the two trees have the same erasure
   declaration by declaration (FormatDiagAny.v).  The one comparison of ranges in `analyze` (is this declaration the one that
   made the table entry of its name ?) has the same outcome because the declaration ranges of the two trees correspond one to
   one (FormatDiagTop.v).  Hence: the same diagnostic messages, in the same order - for every valid program, WELL-TYPED OR NOT.
   The RANGES (Proofs/FormatRanges*.v): the token indices differ, so "the same range" means: the same non-comment tokens -
   [c09_ord ks n], the number of non-comment tokens in front of index n, agrees on the two starts and on the two (exclusive)
   ends.  (The start of a range may be a comment in one document and the token after it in the other: a node's range includes
   the comments in front of its first token.)  Build and analysis only append diagnostics to nodes, with the node's own range
   or - Identifier::to_error - the last token of an identifier (FormatRangesInv.v); the nodes of the two mandated trees sit at
   corresponding positions (FormatRangesSyn.v); the diagnostics on the program node - `main` missing at (0,0), `main` must not
   have parameters at the name of the declaration that made the table entry - correspond by a table invariant
   (FormatRangesTop.v). *)
From Spl Require Proofs.FormatDiagAny.

Theorem C09_same_messages_any : forall p doc toks ins ts,
  prog_ok p = true -> aprog_valid p = true -> lex doc = Some toks -> map tk toks = flatten p ++ [Eof] ->
  exists txt d d',
    formatted_text doc ins ts = Done txt /\
    Errors.new_doc_res doc = Errors.ODone d /\ Errors.new_doc_res txt = Errors.ODone d' /\
    map e_m (Errors.tree_errors (Errors.d_ast d')) = map e_m (Errors.tree_errors (Errors.d_ast d)) /\
    forall l, Errors.doc_errors_res d = Table.ROk l -> exists l', Errors.doc_errors_res d' = Table.ROk l' /\ map snd l' = map snd l.
Proof. exact FormatDiagAny.same_messages_any. Qed.
Print Assumptions C09_same_messages_any.

(* the number of non-comment tokens in front of token index n *)
Definition c09_ord (ks : list kind) (n : nat) : nat := length (code (firstn n ks)).

(* corresponding diagnostics cover the same non-comment tokens *)
Definition C09_same_ranges_statement : Prop :=
  forall p doc toks ins ts,
    prog_ok p = true -> aprog_valid p = true -> lex doc = Some toks -> map tk toks = flatten p ++ [Eof] ->
    exists txt d d',
      formatted_text doc ins ts = Done txt /\ Errors.new_doc_res doc = Errors.ODone d /\ Errors.new_doc_res txt = Errors.ODone d' /\
      Forall2 (fun x x' => e_m x' = e_m x /\ c09_ord (flatten (kept p)) (e_s x') = c09_ord (flatten p) (e_s x)
                           /\ c09_ord (flatten (kept p)) (e_e x') = c09_ord (flatten p) (e_e x))
              (Errors.tree_errors (Errors.d_ast d)) (Errors.tree_errors (Errors.d_ast d')).

From Spl Require Proofs.FormatRangesTop.

Theorem C09_same_ranges_any : C09_same_ranges_statement.
Proof. exact FormatRangesTop.same_ranges_any. Qed.
Print Assumptions C09_same_ranges_any.

(* messages and ranges together, also for what `errors()` returns *)
Theorem C09_same_diagnostics_any : forall p doc toks ins ts,
  prog_ok p = true -> aprog_valid p = true -> lex doc = Some toks -> map tk toks = flatten p ++ [Eof] ->
  exists txt d d',
    formatted_text doc ins ts = Done txt /\ Errors.new_doc_res doc = Errors.ODone d /\ Errors.new_doc_res txt = Errors.ODone d' /\
    Forall2 (fun x x' => e_m x' = e_m x /\ c09_ord (flatten (kept p)) (e_s x') = c09_ord (flatten p) (e_s x)
                         /\ c09_ord (flatten (kept p)) (e_e x') = c09_ord (flatten p) (e_e x))
            (Errors.tree_errors (Errors.d_ast d)) (Errors.tree_errors (Errors.d_ast d')) /\
    map e_m (Errors.tree_errors (Errors.d_ast d')) = map e_m (Errors.tree_errors (Errors.d_ast d)) /\
    forall l, Errors.doc_errors_res d = Table.ROk l -> exists l', Errors.doc_errors_res d' = Table.ROk l' /\ map snd l' = map snd l.
Proof. exact FormatRangesTop.same_diagnostics_any. Qed.
Print Assumptions C09_same_diagnostics_any.

(* proc f(){// a<LF>x// b<LF>:=1 ;if(// c<LF>y){}}  - `x`, `y` undeclared, `main` missing; a, b are hoisted, c is lost *)
Definition c09_bad_aprog : aprog :=
  {| a_decls := [DProc [] [] (str "f") [] None [] [] []
       (SCons (SAsg (AName [str " a"] (str "x")) [str " b"] (c09_f (FLit [] (LDec 1))) [])
       (SCons (SIfT [] [] (c09_f (FVar (AName [str " c"] (str "y")))) [] (SBlk [] SNil [])) SNil)) []];
     a_ceof := [] |}.
Definition c09_bad_adoc : text := str "proc f(){// a" ++ [10] ++ str "x// b" ++ [10] ++ str ":=1 ;if(// c" ++ [10] ++ str "y){}}".

Example C09_same_messages_any_ex :
  aprog_valid c09_bad_aprog = true /\ prog_ok c09_bad_aprog = true
  /\ match lex c09_bad_adoc with Some toks => map tk toks = flatten c09_bad_aprog ++ [Eof] | None => False end
  /\ match Errors.new_doc_res c09_bad_adoc, formatted_text c09_bad_adoc true 2 with
     | Errors.ODone d, Done txt =>
         match Errors.new_doc_res txt with
         | Errors.ODone d' =>
             let ea := Errors.tree_errors (Errors.d_ast d) in
             let eb := Errors.tree_errors (Errors.d_ast d') in
             txt = str "proc f() {" ++ [10] ++ str "  // a" ++ [10] ++ str "  // b" ++ [10] ++ str "  x := 1;" ++ [10]
                   ++ str "  if (y) {}" ++ [10] ++ str "}" ++ [10]
             /\ map e_m eb = map e_m ea /\ length ea = 3%nat
             (* the token-index ranges differ ... *)
             /\ map (fun x => (e_s x, e_e x)) ea = [(0, 0); (6, 7); (14, 15)]%nat
             /\ map (fun x => (e_s x, e_e x)) eb = [(0, 0); (7, 8); (13, 14)]%nat
             (* ... but cover the same non-comment tokens *)
             /\ map (fun x => (c09_ord (flatten c09_bad_aprog) (e_s x), c09_ord (flatten c09_bad_aprog) (e_e x))) ea
                = map (fun x => (c09_ord (flatten (kept c09_bad_aprog)) (e_s x), c09_ord (flatten (kept c09_bad_aprog)) (e_e x))) eb
         | _ => False
         end
     | _, _ => False
     end.
Proof. vm_compute. repeat split; reflexivity. Qed.

(* the instance obtained THROUGH the theorem *)
Example C09_same_messages_any_thm_ex : forall ins ts,
  exists txt d d' l l',
    formatted_text c09_bad_adoc ins ts = Done txt /\ Errors.new_doc_res c09_bad_adoc = Errors.ODone d
    /\ Errors.new_doc_res txt = Errors.ODone d' /\ Errors.doc_errors_res d = Table.ROk l /\ Errors.doc_errors_res d' = Table.ROk l'
    /\ map snd l' = map snd l /\ length l = 3%nat.
Proof.
  intros ins ts. destruct (lex c09_bad_adoc) as [toks|] eqn:El; [|vm_compute in El; discriminate].
  assert (H1 : prog_ok c09_bad_aprog = true) by (vm_compute; reflexivity).
  assert (H3 : aprog_valid c09_bad_aprog = true) by (vm_compute; reflexivity).
  assert (H5 : map tk toks = flatten c09_bad_aprog ++ [Eof]) by (vm_compute in El; injection El as <-; vm_compute; reflexivity).
  destruct (C09_same_messages_any c09_bad_aprog c09_bad_adoc toks ins ts H1 H3 El H5) as (txt & d & d' & E1 & E2 & E3 & _ & E5).
  destruct (Errors.doc_errors_res d) as [l|s] eqn:El0.
  - destruct (E5 l eq_refl) as (l' & El' & Em). exists txt, d, d', l, l'. repeat split; try assumption.
    assert (Ed : Errors.ODone d = Errors.new_doc_res c09_bad_adoc) by (symmetry; exact E2).
    vm_compute in Ed. injection Ed as ->. vm_compute in El0. injection El0 as <-. reflexivity.
  - exfalso. assert (Ed : Errors.ODone d = Errors.new_doc_res c09_bad_adoc) by (symmetry; exact E2).
    vm_compute in Ed. injection Ed as ->. vm_compute in El0. discriminate El0.
Qed.

(* // d<LF>proc// a<LF>main// b<LF>(// p<LF>x// q<LF>:t){y// r<LF>[// s<LF>x]:=// u<LF>x;}
   - `main` must not have parameters (on the name `main`, which has the comment a in front), `t` undefined, `y` undefined:
   the hoisted / lost comments shift every index, the non-comment ordinals agree *)
Definition c09_main_aprog : aprog :=
  {| a_decls := [DProc [str " d"] [str " a"] (str "main") [str " b"] (Some (PVal [str " p"] (str "x") [str " q"] (TName [] (str "t")), [])) [] [] []
       (SCons (SAsg (AIndex (AName [] (str "y")) [str " r"] (c09_f (FVar (AName [str " s"] (str "x")))) []) [] (c09_f (FVar (AName [str " u"] (str "x")))) []) SNil) []];
     a_ceof := [] |}.
Definition c09_main_adoc : text :=
  str "// d" ++ [10] ++ str "proc// a" ++ [10] ++ str "main// b" ++ [10] ++ str "(// p" ++ [10] ++ str "x// q" ++ [10] ++ str ":t){y// r" ++ [10]
  ++ str "[// s" ++ [10] ++ str "x]:=// u" ++ [10] ++ str "x;}".

Example C09_same_ranges_any_ex :
  aprog_valid c09_main_aprog = true /\ prog_ok c09_main_aprog = true
  /\ match lex c09_main_adoc with Some toks => map tk toks = flatten c09_main_aprog ++ [Eof] | None => False end
  /\ match Errors.new_doc_res c09_main_adoc, formatted_text c09_main_adoc true 2 with
     | Errors.ODone d, Done txt =>
         match Errors.new_doc_res txt with
         | Errors.ODone d' =>
             let ea := Errors.tree_errors (Errors.d_ast d) in
             let eb := Errors.tree_errors (Errors.d_ast d') in
             map e_m ea = [EBuild MainMustNotHaveParameters; EBuild (UndefinedType (str "t")); ESem (UndefinedVariable (str "y"))]
             /\ map (fun x => (e_s x, e_e x)) ea = [(3, 4); (10, 11); (13, 14)]%nat
             /\ map (fun x => (e_s x, e_e x)) eb = [(2, 3); (8, 9); (14, 15)]%nat
             /\ map (fun x => (c09_ord (flatten c09_main_aprog) (e_s x), c09_ord (flatten c09_main_aprog) (e_e x))) ea
                = map (fun x => (c09_ord (flatten (kept c09_main_aprog)) (e_s x), c09_ord (flatten (kept c09_main_aprog)) (e_e x))) eb
         | _ => False
         end
     | _, _ => False
     end.
Proof. vm_compute. repeat split; reflexivity. Qed.

(* the instance obtained THROUGH the theorem, for all option settings *)
Example C09_same_diagnostics_any_thm_ex : forall ins ts,
  exists txt d d',
    formatted_text c09_main_adoc ins ts = Done txt /\ Errors.new_doc_res c09_main_adoc = Errors.ODone d /\ Errors.new_doc_res txt = Errors.ODone d'
    /\ length (Errors.tree_errors (Errors.d_ast d)) = 3%nat
    /\ Forall2 (fun x x' => e_m x' = e_m x /\ c09_ord (flatten (kept c09_main_aprog)) (e_s x') = c09_ord (flatten c09_main_aprog) (e_s x)
                            /\ c09_ord (flatten (kept c09_main_aprog)) (e_e x') = c09_ord (flatten c09_main_aprog) (e_e x))
               (Errors.tree_errors (Errors.d_ast d)) (Errors.tree_errors (Errors.d_ast d')).
Proof.
  intros ins ts. destruct (lex c09_main_adoc) as [toks|] eqn:El; [|vm_compute in El; discriminate].
  assert (H1 : prog_ok c09_main_aprog = true) by (vm_compute; reflexivity).
  assert (H3 : aprog_valid c09_main_aprog = true) by (vm_compute; reflexivity).
  assert (H5 : map tk toks = flatten c09_main_aprog ++ [Eof]) by (vm_compute in El; injection El as <-; vm_compute; reflexivity).
  destruct (C09_same_ranges_any c09_main_aprog c09_main_adoc toks ins ts H1 H3 El H5) as (txt & d & d' & E1 & E2 & E3 & E4).
  exists txt, d, d'. repeat split; try assumption.
  assert (Ed : Errors.ODone d = Errors.new_doc_res c09_main_adoc) by (symmetry; exact E2).
  vm_compute in Ed. injection Ed as ->. reflexivity.
Qed.
