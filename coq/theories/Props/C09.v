(* C09 - formatting never changes the program.
   Statements only; proofs in Proofs/FormatProofs.v, model in Model/Format.v (+ Model/Lexer.v, Base/Show.v).

   PROVED here, for all inputs:
     - the edit is one edit over the whole document with a text that differs from the document (C09_whole_edit,
       C09_whole_document_covers);
     - part (B) of the design, the lexical half of "only whitespace moves": the table of all pairs of token classes
       that the printers put side by side WITHOUT a separator is free of boundary hazards (C09_glue_table, a
       vm_compute sweep), and at such a boundary the lexer cuts the glued text exactly where the printer glued it,
       giving the left token back with its kind and value (C09_glue_lift); in particular what Display prints for an
       int / hex / char literal lexes back to the same value even though the spelling may change (C09_int_roundtrip,
       C09_hex_roundtrip, C09_char_roundtrip), an identifier followed by a non-word character is that identifier
       (C09_ident_glue).
   STATED, NOT PROVED: C09_full_statement - part (A), that the printers emit exactly the non-comment tokens of the
   tree in order, needs the parser round trip (DESIGN C04); it is validated on the implementation by the check. *)
From Coq Require Import String.
From Spl Require Import Model.Format Model.Lexer Proofs.FormatProofs.
From Spl Require Model.Doc.
Import ListNotations.
Local Open Scope N_scope.

(* 1. the edit *)
Theorem C09_whole_edit : forall doc ins ts r new,
  format_request doc ins ts = Done (Some (r, new)) ->
  r = ((0, 0), Doc.as_position (blen doc) doc) /\ new <> doc /\ formatted_text doc ins ts = Done new.
Proof. exact whole_edit. Qed.
Print Assumptions C09_whole_edit.

(* ... and that range is the whole document: under the server's own position -> index conversion (the LSP rule,
   C08) its start addresses byte 0 and its end the byte length of the document *)
Theorem C09_whole_document_covers : forall doc,
  let r := ((0, 0), Doc.as_position (blen doc) doc) in
  Doc.get_insertion_index (fst (fst r)) (snd (fst r)) doc = 0 /\
  Doc.get_insertion_index (fst (snd r)) (snd (snd r)) doc = blen doc.
Proof. exact whole_document_covers. Qed.
Print Assumptions C09_whole_document_covers.

Definition c09_doc : text := str "proc main(){" ++ [13; 10] ++ str "x:= - 007*('a'+0x0a) ;// " ++ [8364] ++ [10] ++ str "}".

Example C09_whole_edit_ex :
  format_request c09_doc true 4 =
  Done (Some (((0, 0), (2, 1)), str "proc main() {" ++ [10] ++ str "    x := -7 * ('a' + 0x0A);" ++ [10] ++ str "}" ++ [10]))
  /\ Doc.as_position (blen c09_doc) c09_doc = (2, 1) /\ blen c09_doc = 44
  /\ Doc.get_insertion_index 2 1 c09_doc = 44 /\ Doc.get_insertion_index 0 0 c09_doc = 0.
Proof. vm_compute. repeat split. Qed.

(* 2. the separator table *)
Example C09_glue_unfold :
  (forall l r, glue_ok l r =
     match l with
     | GSym k => closed_sym k
     | GId | GLit => match r with
                     | GSym k' => match static_str k' with c :: _ => negb (is_alnum_trunc c) | [] => false end
                     | _ => false
                     end
     end)
  /\ (forall k, closed_sym k = match k with
                               | LParen | RParen | LBracket | RBracket | LCurly | RCurly | EqT | NeqT | Comma | Semic
                               | Plus | Minus | Times | LeT | GeT | Assign => true
                               | _ => false
                               end)
  /\ length glue_table = 35%nat.
Proof. repeat split; intros; reflexivity. Qed.

Theorem C09_glue_table : forallb (fun lr : gclass * gclass => glue_ok (fst lr) (snd lr)) glue_table = true.
Proof. exact glue_table_ok. Qed.
Print Assumptions C09_glue_table.

(* the table is not vacuous: pairs the printers never glue are rejected *)
Example C09_glue_table_ex :
  glue_ok GId GId = false /\ glue_ok GLit GId = false /\ glue_ok GId (GSym KElse) = false
  /\ glue_ok (GSym Colon) (GSym EqT) = false /\ glue_ok (GSym Divide) (GSym Divide) = false
  /\ glue_ok (GSym Minus) (GSym Minus) = true /\ In (GSym Minus, GSym Minus) glue_table.
Proof. vm_compute. repeat split. do 30 right. tauto. Qed.

Theorem C09_glue_lift : forall l r sl k sr rest,
  glue_ok l r = true -> spelled l sl k -> right_spelling r sr ->
  lex_raw (sl ++ sr ++ rest) = Some (k, [], sl, sr ++ rest).
Proof. exact glue_lift. Qed.
Print Assumptions C09_glue_lift.

Example C09_glue_lift_ex :
  ident_ok (str "ifx") /\ spelled GId (str "ifx") (Ident (str "ifx")) /\ glue_ok GId (GSym LBracket) = true
  /\ lex_raw (str "ifx" ++ str "[" ++ str "1]") = Some (Ident (str "ifx"), [], str "ifx", str "[1]")
  /\ ~ ident_ok (str "if") /\ lex_raw (str "if[") = Some (KIf, [], str "if", str "[").
Proof.
  assert (H : ident_ok (str "ifx")) by (vm_compute; repeat split).
  split; [exact H|]. split; [constructor; exact H|]. split; [reflexivity|]. split; [reflexivity|].
  split; [|reflexivity]. intros [_ Hk]. vm_compute in Hk. discriminate.
Qed.

(* literals: Display may change the spelling (007 -> 7, 0x0a -> 0x0A) but never the value *)
Theorem C09_int_roundtrip : forall i r, i < 4294967296 -> word_end r = true ->
  lex_raw (show_kind (IntT (IntOk i)) ++ r) = Some (IntT (IntOk i), [], show_kind (IntT (IntOk i)), r).
Proof. exact int_roundtrip. Qed.
Print Assumptions C09_int_roundtrip.

Theorem C09_hex_roundtrip : forall i r, i < 4294967296 -> word_end r = true ->
  lex_raw (show_kind (HexT (IntOk i)) ++ r) = Some (HexT (IntOk i), [], show_kind (HexT (IntOk i)), r).
Proof. exact hex_roundtrip. Qed.
Print Assumptions C09_hex_roundtrip.

Theorem C09_char_roundtrip : forall c r,
  lex_raw (show_kind (CharT c) ++ r) = Some (CharT c, [], show_kind (CharT c), r).
Proof. exact lex_char_glue. Qed.
Print Assumptions C09_char_roundtrip.

Theorem C09_ident_glue : forall x r, ident_ok x -> word_end r = true -> lex_raw (x ++ r) = Some (Ident x, [], x, r).
Proof. exact lex_ident_glue. Qed.
Print Assumptions C09_ident_glue.

Example C09_literal_ex :
  lex_raw (str "007;") = Some (IntT (IntOk 7), [], str "007", str ";") /\ show_kind (IntT (IntOk 7)) = str "7"
  /\ lex_raw (str "0x0a)") = Some (HexT (IntOk 10), [], str "0x0a", str ")") /\ show_kind (HexT (IntOk 10)) = str "0x0A"
  /\ show_kind (HexT (IntOk 4660)) = str "0x1234" /\ show_kind (CharT 10) = [39; 92; 110; 39]
  /\ word_end (str ";") = true /\ word_end (str "x") = false /\ word_end [] = true.
Proof. vm_compute. repeat split. Qed.

(* 3. the full statement, not proved *)
Definition C09_full_statement : Prop := C09_statement.
Example C09_full_statement_unfold :
  C09_full_statement =
  (forall doc ins ts toks out toks',
     syntactically_valid doc -> lex doc = Some toks -> formatted_text doc ins ts = Done out -> lex out = Some toks' ->
     code_kinds toks' = code_kinds toks /\ syntactically_valid out)
  /\ (forall toks, code_kinds toks = filter (fun k => match k with Comment _ => false | _ => true end) (map tk toks)).
Proof. split; reflexivity. Qed.

(* an instance of the full statement *)
Example C09_full_statement_instance :
  match lex c09_doc, formatted_text c09_doc true 4 with
  | Some toks, Done out =>
      match lex out with
      | Some toks' => code_kinds toks' = code_kinds toks /\ length (code_kinds toks) = 18%nat
                      /\ In (IntT (IntOk 7)) (code_kinds toks) /\ In (HexT (IntOk 10)) (code_kinds toks)
      | None => False
      end
  | _, _ => False
  end.
Proof. vm_compute. repeat split; tauto. Qed.

(* ================================================================================================
   4. Part (A), the structural half - PROVED for comment-free programs (Proofs/FormatStruct*.v)

   For every abstract program p of Spec/Grammar.v without comments (all comment slots empty: [comment_free]) whose
   tokens are valid ([aprog_valid]: identifiers well-formed and no keywords, literals below 2^32), every token vector
   with the kinds of p, and every indentation unit made of blanks or tabs:
     C09_structure : the printer run on the mandated tree [expected p] returns exactly the spellings of the program's
                     tokens ([show_kind], Display for TokenType), in order, separated only by whitespace gaps that are
                     admissible in the sense of Proofs/RenderProofs.v ([gaps_ok]: a gap between two tokens is empty only
                     where the two spellings do not merge - the instances of the glue table above);
     C09_spellings : what Display prints for a token is a lexeme of the SAME kind and value; it is the canonical
                     spelling, except that a one-digit hexadecimal literal is zero padded ({:#04X});
     C09_tokens    : hence the printed text lexes to the program's tokens - same kinds, same values, no lexical error;
     C09_document  : from a document: a text that lexes to the tokens of such a program (and [prog_ok]: the dangling-else
                     shape, needed for the parser round trip C04) is formatted to a text with the same token kinds.
   Of [C09_full_statement] this proves the token half (`code_kinds toks' = code_kinds toks`) for all documents that are
   layouts of valid comment-free programs; open: programs with comments (the printer then emits comment lines in the
   covered gaps and drops the others, C10) and "syntactically_valid out" as a statement about [program_clean]. *)
From Spl Require Import Spec.Grammar Proofs.LexerProofs Proofs.RenderProofs Proofs.PipelineText
  Proofs.FormatStructText Proofs.FormatStructProg.
From Spl Require Spec.LexSpec.

Example C09_comment_free_unfold :
  (forall p, comment_free p = forallb (fun k => negb (match k with Comment _ => true | _ => false end)) (flatten p))
  /\ (forall p, aprog_valid p = forallb valid_kind (flatten p))
  /\ (forall k, nice k = valid_kind k && negb (match k with Comment _ => true | _ => false end)).
Proof. repeat split; reflexivity. Qed.

Theorem C09_structure : forall p toks f,
  (ind_sym f = 32 \/ ind_sym f = 9) -> comment_free p = true -> aprog_valid p = true ->
  map tk toks = flatten p ++ [Eof] ->
  exists txt gaps,
    fmt_program f (expected p) toks = FOk txt /\
    txt = weave gaps (map show_kind (flatten p)) /\
    gaps_ok (flatten p) gaps /\
    Forall (fun g => forallb is_ws g = true) gaps /\
    hd [] gaps = [] /\ (flatten p <> [] -> last gaps [] = [10]).
Proof. exact structure. Qed.
Print Assumptions C09_structure.

Theorem C09_spellings : forall k, nice k = true ->
  LexSpec.Lexeme k (show_kind k) /\
  (show_kind k = spelling k \/
   exists v a, k = HexT (IntOk v) /\ spelling k = [48; 120; a] /\ show_kind k = [48; 120; 48; a]).
Proof. intros k H. split; [apply show_lexeme; exact H | apply show_vs_spelling; exact H]. Qed.
Print Assumptions C09_spellings.

Theorem C09_tokens : forall p toks f txt,
  (ind_sym f = 32 \/ ind_sym f = 9) -> comment_free p = true -> aprog_valid p = true ->
  map tk toks = flatten p ++ [Eof] ->
  fmt_program f (expected p) toks = FOk txt ->
  exists toks', lex txt = Some toks' /\ map tk toks' = flatten p ++ [Eof] /\ Forall (fun t => terr t = []) toks'.
Proof. exact tokens. Qed.
Print Assumptions C09_tokens.

Theorem C09_document : forall p doc toks ins ts,
  prog_ok p = true -> comment_free p = true -> aprog_valid p = true ->
  lex doc = Some toks -> map tk toks = flatten p ++ [Eof] ->
  exists txt toks',
    formatted_text doc ins ts = Done txt /\
    lex txt = Some toks' /\ map tk toks' = map tk toks /\
    format_request txt ins ts = Done None.
Proof. exact format_document. Qed.
Print Assumptions C09_document.

(* proc main(a: int, ref b: array [0x0a] of int) { var x: int;
     if (a < - -1) x := 007 * (b[0] + 'c'); else if (a = 2) {} else main(a, b); }   - without any comment *)
Definition c09_v (s : string) : avar := AName [] (str s).
Definition c09_f (f : afac) : acmp := CAdd (AMul (MFac f)).
Definition c09_int : atype := TName [] (str "int").
Definition c09_prog : aprog :=
  {| a_decls :=
       [DProc [] [] (str "main") []
          (Some (PVal [] (str "a") [] c09_int,
                 [([], PRef [] [] (str "b") [] (TArr [] [] [] (LHex 10) [] [] c09_int))])) [] []
          [{| v_c1 := []; v_c2 := []; v_x := str "x"; v_c3 := []; v_t := c09_int; v_c4 := [] |}]
          (SCons
             (SIfE [] [] (CBin (AMul (MFac (FVar (c09_v "a")))) [] CLt (AMul (MFac (FNeg [] (FNeg [] (FLit [] (LDec 1))))))) []
                (SAsg (c09_v "x") []
                   (CAdd (AMul (MBin (MFac (FLit [] (LDec 7))) [] MTimes
                      (FPar [] (CAdd (ABin (AMul (MFac (FVar (AIndex (c09_v "b") [] (c09_f (FLit [] (LDec 0))) []))))
                                           [] APlus (MFac (FLit [] (LChr 99))))) [])))) [])
                []
                (SIfE [] [] (CBin (AMul (MFac (FVar (c09_v "a")))) [] CEq (AMul (MFac (FLit [] (LDec 2))))) []
                   (SBlk [] SNil []) []
                   (SCal [] (str "main") [] (Some (c09_f (FVar (c09_v "a")), [([], c09_f (FVar (c09_v "b")))])) [] [])))
             SNil) []];
     a_ceof := [] |}.
Definition c09_mk (k : kind) : token := {| tk := k; ts := 0; te := 0; terr := [] |}.
Definition c09_out : text :=
  str "proc main(a: int, ref b: array [0x0A] of int) {" ++ [10] ++ str "  var x: int;" ++ [10; 10]
  ++ str "  if (a < --1)" ++ [10] ++ str "    x := 7 * (b[0] + 'c');" ++ [10]
  ++ str "  else if (a = 2) {}" ++ [10] ++ str "  else" ++ [10] ++ str "    main(a, b);" ++ [10] ++ str "}" ++ [10].

(* the hypotheses hold for the example, and the conclusions are what the theorems say *)
Example C09_structure_ex :
  comment_free c09_prog = true /\ aprog_valid c09_prog = true /\ prog_ok c09_prog = true
  /\ length (flatten c09_prog) = 62%nat
  /\ fmt_program (options_of true 2) (expected c09_prog) (map c09_mk (flatten c09_prog ++ [Eof])) = FOk c09_out
  /\ match lex c09_out with
     | Some toks' => map tk toks' = flatten c09_prog ++ [Eof]
     | None => False
     end
  /\ In (HexT (IntOk 10)) (flatten c09_prog) /\ show_kind (HexT (IntOk 10)) = str "0x0A" /\ spelling (HexT (IntOk 10)) = str "0xA"
  /\ comment_free {| a_decls := []; a_ceof := [str " c"] |} = false.
Proof. vm_compute. repeat split; try reflexivity. repeat (first [left; reflexivity | right]). Qed.

(* the instance of C09_tokens obtained THROUGH the theorem *)
Example C09_tokens_ex :
  exists toks', lex c09_out = Some toks' /\ map tk toks' = flatten c09_prog ++ [Eof] /\ Forall (fun t => terr t = []) toks'.
Proof.
  apply (C09_tokens c09_prog (map c09_mk (flatten c09_prog ++ [Eof])) (options_of true 2) c09_out).
  - left. reflexivity.
  - vm_compute. reflexivity.
  - vm_compute. reflexivity.
  - rewrite map_map. apply map_id.
  - vm_compute. reflexivity.
Qed.
