(* C04 - judge command 10: a numerically encoded abstract program (Spec/Grammar.v) to
     0 :: enc_list enc_kind (flatten p ++ [Eof]) ++ enc_program (expected p)
   ([4] = the arguments do not decode, [5] = the program has a dangling-else shape excluded by prog_ok).
   The harness renders the same abstract program to text in some layout, runs the real lexer and parser
   on it (harness/src/bin/dump.rs commands 1 and 7) and compares: kinds of the real tokens = flatten p
   ++ [Eof], real tree = expected p.

   Encoding (pre-order; every constructor lists its fields in SOURCE order, so the comment slots appear in
   token order):
     text   ::= n c1 .. cn                       code points
     cs     ::= n text1 .. textn                 one comment slot
     lit    ::= 0 v (decimal) | 1 v (hex) | 2 c (char)
     var    ::= 0 cs text | 1 var cs cmp cs                                   x | v [ e ]
     fac    ::= 0 cs lit | 1 var | 2 cs fac | 3 cs cmp cs                     lit | v | - f | ( e )
     mul    ::= 0 fac | 1 mul cs op fac            op: 0 '*' 1 '/'
     add    ::= 0 mul | 1 add cs op mul            op: 0 '+' 1 '-'
     cmp    ::= 0 add | 1 add cs op add            op: 0 '=' 1 '#' 2 '<' 3 '<=' 4 '>' 5 '>='
     type   ::= 0 cs text | 1 cs cs cs lit cs cs type                         x | array [ lit ] of t
     sep(X) ::= 0 | 1 X n (cs X)^n                 comma-separated list; cs = slot of the comma
     stmt   ::= 0 cs | 1 var cs cmp cs | 2 cs text cs sep(cmp) cs cs | 3 cs cs cmp cs stmt
              | 4 cs cs cmp cs stmt cs stmt | 5 cs cs cmp cs stmt | 6 cs n stmt^n cs
                                                   ; | v := e ; | f ( args ) ; | if | if-else | while | { .. }
     param  ::= 0 cs text cs type | 1 cs cs text cs type                      x : t | ref x : t
     vardec ::= cs cs text cs type cs                                         var x : t ;
     decl   ::= 0 cs cs text cs type cs                                       type x = t ;
              | 1 cs cs text cs sep(param) cs cs n vardec^n m stmt^m cs       proc x ( ps ) { vs ss }
     prog   ::= n decl^n cs                        cs = the comments in front of EOF *)
From Spl Require Import Spec.Grammar Judge.DumpAst.

Local Open Scope N_scope.

Definition R (A : Type) := option (A * list N).
Definition bindR {A B} (r : R A) (k : A -> list N -> R B) : R B :=
  match r with Some (a, l) => k a l | None => None end.
Notation "'let*' x ',' l ':=' r 'in' k" := (bindR r (fun x l => k)) (at level 200, x name, l name, right associativity).

Definition d_num (l : list N) : R N := match l with n :: r => Some (n, r) | [] => None end.

Definition d_text (l : list N) : R text :=
  match l with
  | n :: r => if Nat.leb (N.to_nat n) (length r) then Some (firstn (N.to_nat n) r, skipn (N.to_nat n) r) else None
  | [] => None
  end.

Fixpoint d_rep {A} (d : list N -> R A) (n : nat) (l : list N) : R (list A) :=
  match n with
  | O => Some ([], l)
  | S n' => let* a, l1 := d l in let* r, l2 := d_rep d n' l1 in Some (a :: r, l2)
  end.

(* a count never exceeds the number of remaining numbers *)
Definition d_count (l : list N) : R nat :=
  match l with n :: r => if Nat.leb (N.to_nat n) (length r) then Some (N.to_nat n, r) else None | [] => None end.

Definition d_cs (l : list N) : R cs := let* n, l1 := d_count l in d_rep d_text n l1.

Definition d_lit (l : list N) : R alit :=
  match l with
  | 0 :: v :: r => Some (LDec v, r)
  | 1 :: v :: r => Some (LHex v, r)
  | 2 :: v :: r => Some (LChr v, r)
  | _ => None
  end.

Definition d_sep {A} (d : list N -> R A) (l : list N) : R (option (A * list (cs * A))) :=
  match l with
  | 0 :: r => Some (None, r)
  | 1 :: r =>
      let* a, l1 := d r in
      let* n, l2 := d_count l1 in
      let* t, l3 := d_rep (fun l => let* c, la := d_cs l in let* x, lb := d la in Some ((c, x), lb)) n l2 in
      Some (Some (a, t), l3)
  | _ => None
  end.

Fixpoint d_var (fuel : nat) (l : list N) {struct fuel} : R avar :=
  match fuel with
  | O => None
  | S f =>
      match l with
      | 0 :: r => let* c, l1 := d_cs r in let* x, l2 := d_text l1 in Some (AName c x, l2)
      | 1 :: r =>
          let* v, l1 := d_var f r in let* c1, l2 := d_cs l1 in let* e, l3 := d_cmp f l2 in let* c2, l4 := d_cs l3 in
          Some (AIndex v c1 e c2, l4)
      | _ => None
      end
  end
with d_fac (fuel : nat) (l : list N) {struct fuel} : R afac :=
  match fuel with
  | O => None
  | S f =>
      match l with
      | 0 :: r => let* c, l1 := d_cs r in let* x, l2 := d_lit l1 in Some (FLit c x, l2)
      | 1 :: r => let* v, l1 := d_var f r in Some (FVar v, l1)
      | 2 :: r => let* c, l1 := d_cs r in let* x, l2 := d_fac f l1 in Some (FNeg c x, l2)
      | 3 :: r => let* c1, l1 := d_cs r in let* e, l2 := d_cmp f l1 in let* c2, l3 := d_cs l2 in Some (FPar c1 e c2, l3)
      | _ => None
      end
  end
with d_mul (fuel : nat) (l : list N) {struct fuel} : R amul :=
  match fuel with
  | O => None
  | S f =>
      match l with
      | 0 :: r => let* x, l1 := d_fac f r in Some (MFac x, l1)
      | 1 :: r =>
          let* m, l1 := d_mul f r in let* c, l2 := d_cs l1 in let* o, l3 := d_num l2 in let* x, l4 := d_fac f l3 in
          match o with 0 => Some (MBin m c MTimes x, l4) | 1 => Some (MBin m c MDivide x, l4) | _ => None end
      | _ => None
      end
  end
with d_add (fuel : nat) (l : list N) {struct fuel} : R aadd :=
  match fuel with
  | O => None
  | S f =>
      match l with
      | 0 :: r => let* x, l1 := d_mul f r in Some (AMul x, l1)
      | 1 :: r =>
          let* a, l1 := d_add f r in let* c, l2 := d_cs l1 in let* o, l3 := d_num l2 in let* x, l4 := d_mul f l3 in
          match o with 0 => Some (ABin a c APlus x, l4) | 1 => Some (ABin a c AMinus x, l4) | _ => None end
      | _ => None
      end
  end
with d_cmp (fuel : nat) (l : list N) {struct fuel} : R acmp :=
  match fuel with
  | O => None
  | S f =>
      match l with
      | 0 :: r => let* x, l1 := d_add f r in Some (CAdd x, l1)
      | 1 :: r =>
          let* a, l1 := d_add f r in let* c, l2 := d_cs l1 in let* o, l3 := d_num l2 in let* b, l4 := d_add f l3 in
          match o with
          | 0 => Some (CBin a c CEq b, l4) | 1 => Some (CBin a c CNe b, l4) | 2 => Some (CBin a c CLt b, l4)
          | 3 => Some (CBin a c CLe b, l4) | 4 => Some (CBin a c CGt b, l4) | 5 => Some (CBin a c CGe b, l4)
          | _ => None
          end
      | _ => None
      end
  end.

Fixpoint d_type (fuel : nat) (l : list N) {struct fuel} : R atype :=
  match fuel with
  | O => None
  | S f =>
      match l with
      | 0 :: r => let* c, l1 := d_cs r in let* x, l2 := d_text l1 in Some (TName c x, l2)
      | 1 :: r =>
          let* ca, l1 := d_cs r in let* cl, l2 := d_cs l1 in let* cz, l3 := d_cs l2 in let* z, l4 := d_lit l3 in
          let* cr, l5 := d_cs l4 in let* co, l6 := d_cs l5 in let* b, l7 := d_type f l6 in
          Some (TArr ca cl cz z cr co b, l7)
      | _ => None
      end
  end.

Fixpoint mk_stmts (l : list astmt) : astmts := match l with [] => SNil | s :: r => SCons s (mk_stmts r) end.

Fixpoint d_stmt (fuel : nat) (l : list N) {struct fuel} : R astmt :=
  match fuel with
  | O => None
  | S f =>
      let dc := d_cmp (length l) in
      match l with
      | 0 :: r => let* c, l1 := d_cs r in Some (SEmp c, l1)
      | 1 :: r =>
          let* v, l1 := d_var (length l) r in let* c1, l2 := d_cs l1 in let* e, l3 := dc l2 in let* c2, l4 := d_cs l3 in
          Some (SAsg v c1 e c2, l4)
      | 2 :: r =>
          let* c1, l1 := d_cs r in let* x, l2 := d_text l1 in let* c2, l3 := d_cs l2 in let* a, l4 := d_sep dc l3 in
          let* c3, l5 := d_cs l4 in let* c4, l6 := d_cs l5 in Some (SCal c1 x c2 a c3 c4, l6)
      | 3 :: r =>
          let* c1, l1 := d_cs r in let* c2, l2 := d_cs l1 in let* e, l3 := dc l2 in let* c3, l4 := d_cs l3 in
          let* t, l5 := d_stmt f l4 in Some (SIfT c1 c2 e c3 t, l5)
      | 4 :: r =>
          let* c1, l1 := d_cs r in let* c2, l2 := d_cs l1 in let* e, l3 := dc l2 in let* c3, l4 := d_cs l3 in
          let* t, l5 := d_stmt f l4 in let* c4, l6 := d_cs l5 in let* s, l7 := d_stmt f l6 in
          Some (SIfE c1 c2 e c3 t c4 s, l7)
      | 5 :: r =>
          let* c1, l1 := d_cs r in let* c2, l2 := d_cs l1 in let* e, l3 := dc l2 in let* c3, l4 := d_cs l3 in
          let* b, l5 := d_stmt f l4 in Some (SWhl c1 c2 e c3 b, l5)
      | 6 :: r =>
          let* c1, l1 := d_cs r in let* n, l2 := d_count l1 in let* b, l3 := d_rep (fun x => d_stmt f x) n l2 in
          let* c2, l4 := d_cs l3 in Some (SBlk c1 (mk_stmts b) c2, l4)
      | _ => None
      end
  end.

Definition d_param (l : list N) : R aparam :=
  match l with
  | 0 :: r =>
      let* c, l1 := d_cs r in let* x, l2 := d_text l1 in let* cc, l3 := d_cs l2 in let* t, l4 := d_type (length l) l3 in
      Some (PVal c x cc t, l4)
  | 1 :: r =>
      let* cr, l0 := d_cs r in
      let* c, l1 := d_cs l0 in let* x, l2 := d_text l1 in let* cc, l3 := d_cs l2 in let* t, l4 := d_type (length l) l3 in
      Some (PRef cr c x cc t, l4)
  | _ => None
  end.

Definition d_vardecl (l : list N) : R avardecl :=
  let* c1, l1 := d_cs l in let* c2, l2 := d_cs l1 in let* x, l3 := d_text l2 in let* c3, l4 := d_cs l3 in
  let* t, l5 := d_type (length l) l4 in let* c4, l6 := d_cs l5 in
  Some ({| v_c1 := c1; v_c2 := c2; v_x := x; v_c3 := c3; v_t := t; v_c4 := c4 |}, l6).

Definition d_decl (l : list N) : R adecl :=
  match l with
  | 0 :: r =>
      let* c1, l1 := d_cs r in let* c2, l2 := d_cs l1 in let* x, l3 := d_text l2 in let* c3, l4 := d_cs l3 in
      let* t, l5 := d_type (length l) l4 in let* c4, l6 := d_cs l5 in Some (DType c1 c2 x c3 t c4, l6)
  | 1 :: r =>
      let* c1, l1 := d_cs r in let* c2, l2 := d_cs l1 in let* x, l3 := d_text l2 in let* c3, l4 := d_cs l3 in
      let* ps, l5 := d_sep d_param l4 in let* c4, l6 := d_cs l5 in let* c5, l7 := d_cs l6 in
      let* nv, l8 := d_count l7 in let* vs, l9 := d_rep d_vardecl nv l8 in
      let* ns, l10 := d_count l9 in let* ss, l11 := d_rep (fun x => d_stmt (length l) x) ns l10 in
      let* c6, l12 := d_cs l11 in
      Some (DProc c1 c2 x c3 ps c4 c5 vs (mk_stmts ss) c6, l12)
  | _ => None
  end.

Definition d_prog (l : list N) : option aprog :=
  match (let* n, l1 := d_count l in let* ds, l2 := d_rep d_decl n l1 in let* c, l3 := d_cs l2 in
         Some ({| a_decls := ds; a_ceof := c |}, l3)) with
  | Some (p, []) => Some p
  | _ => None
  end.

Definition run_grammar (args : list N) : list N :=
  match d_prog args with
  | None => [4]
  | Some p =>
      if prog_ok p then 0 :: enc_list enc_kind (flatten p ++ [Eof]) ++ enc_program (expected p)
      else [5]
  end.
