(* Judge commands of the hover / signature help / folding range models.
     40 line col text...  -> textDocument/hover          0 0 | 0 1 text(value) sl sc el ec
     41 line col text...  -> textDocument/signatureHelp  0 0 | 0 1 text(label) opt(text doc) list(text params) opt(active)
     42 text...           -> textDocument/foldingRange   0 list(start_line end_line) pre   (pre = fold_pre, 0/1)
   [1] = the handler (or AnalyzedSource::new) panics, [2] = the model ran out of fuel, [4] = malformed command. *)
From Spl Require Export Judge.DumpTable Model.Hover Model.SigHelp Model.Fold.

Definition with_doc (t : text) (k : doc -> res (list N)) : list N :=
  match new_doc_res t with
  | ODone d => match k d with ROk l => 0 :: l | RFail _ => [1] end
  | OFail _ => [1]
  | OFuel => [2]
  end.

Definition enc_prange (r : prange) : list N :=
  [fst (fst r); snd (fst r); fst (snd r); snd (snd r)].

Definition enc_hover (h : option (text * prange)) : list N :=
  enc_opt (fun x => enc_text (fst x) ++ enc_prange (snd x)) h.

Definition enc_sighelp (h : option sighelp) : list N :=
  enc_opt (fun s => enc_text (sh_label s) ++ enc_opt enc_text (sh_doc s) ++ enc_list enc_text (sh_params s)
                    ++ enc_opt (fun a => [a]) (sh_active s)) h.

Definition run_hover (args : list N) : list N :=
  match args with
  | line :: col :: t => with_doc t (fun d => do h <- hover d line col; ROk (enc_hover h))
  | _ => [4]
  end.

Definition run_sighelp (args : list N) : list N :=
  match args with
  | line :: col :: t => with_doc t (fun d => do h <- signature_help d line col; ROk (enc_sighelp h))
  | _ => [4]
  end.

(* 42: the answer, followed by one number: 1 when the document satisfies [fold_pre], else 0 *)
Definition run_fold (args : list N) : list N :=
  match new_doc_res args with
  | ODone d =>
      match fold d with
      | ROk l => 0 :: enc_list (fun x => [fst x; snd x]) l
      | RFail _ => [1]
      end ++ [if fold_pre d then 1 else 0]
  | OFail _ => [1]
  | OFuel => [2]
  end.

(* 140 k (kind line col){k} text...  -> the answers of k requests on ONE document (kind 0 = hover,
   1 = signatureHelp): 0 pre k (n_i e_i){k}, pre = cursor_pre of the document (0/1), where e_i (n_i numbers) is what command 40 / 41 prints for
   the request: 0 :: answer, or 1 when the handler panics.  [1] / [2] when AnalyzedSource::new
   panics / the model runs out of fuel, [4] = malformed command. *)
Definition one_request (d : doc) (kind line col : N) : list N :=
  let r := if kind =? 0 then (do h <- hover d line col; ROk (enc_hover h))
           else (do h <- signature_help d line col; ROk (enc_sighelp h)) in
  match r with ROk l => 0 :: l | RFail _ => [1] end.

Fixpoint split_requests (k : nat) (l : list N) : option (list (N * N * N) * list N) :=
  match k with
  | O => Some ([], l)
  | S k' =>
      match l with
      | kind :: line :: col :: r =>
          match split_requests k' r with
          | Some (rs, t) => Some ((kind, line, col) :: rs, t)
          | None => None
          end
      | _ => None
      end
  end.

Definition run_batch (args : list N) : list N :=
  match args with
  | k :: rest =>
      match split_requests (N.to_nat k) rest with
      | Some (rs, t) =>
          match new_doc_res t with
          | ODone d => 0 :: (if cursor_pre d then 1 else 0) :: enc_list (fun '(kind, line, col) => enc_list (fun x => [x]) (one_request d kind line col)) rs
          | OFail _ => [1]
          | OFuel => [2]
          end
      | None => [4]
      end
  | [] => [4]
  end.
