(* Canonical numeric encoding of observable values (the Rust harness defines the same encoding
   independently in harness/src/encode.rs). *)
From Spl Require Export Model.LexUpdate.

Definition nlen {A} (l : list A) : N := N.of_nat (length l).

Definition enc_text (s : text) : list N := nlen s :: s.

Definition enc_int_result (r : int_result) : list N :=
  match r with IntOk v => [0; v] | IntErr s => 1 :: enc_text s end.

Definition enc_kind (k : kind) : list N :=
  kind_tag k ::
  match k with
  | Ident s | Comment s | Unknown s => enc_text s
  | CharT c => [c]
  | IntT r | HexT r => enc_int_result r
  | _ => []
  end.

Definition enc_lexmsg (m : lexmsg) : list N :=
  match m with
  | MissingClosingTick => [0]
  | ExpectedHexNumber => [1]
  | InvalidIntLit s => 2 :: enc_text s
  end.

Definition enc_lerr (e : lerr) : list N := [le_s e; le_e e] ++ enc_lexmsg (le_m e).

Definition enc_list {A} (f : A -> list N) (l : list A) : list N :=
  nlen l :: flat_map f l.

Definition enc_token (t : token) : list N :=
  enc_kind (tk t) ++ [ts t; te t] ++ enc_list enc_lerr (terr t).

Definition enc_tokens (l : list token) : list N := enc_list enc_token l.

(* outcome tags: 0 = done, 1 = panic, 2 = out of fuel *)
Definition enc_lex (r : option (list token)) : list N :=
  match r with Some l => 0 :: enc_tokens l | None => [2] end.

Definition enc_update (r : uresult) : list N :=
  match r with
  | UDone l a b n => 0 :: N.of_nat a :: N.of_nat b :: N.of_nat n :: enc_tokens l
  | UPanic _ => [1]
  | UFuel => [2]
  end.

Definition nlist_eqb (a b : list N) : bool := list_eqb N.eqb a b.
