From Coq Require Extraction.
From Coq Require Import ExtrOcamlBasic.
From Spl Require Import Judge.Run.
Extraction Language OCaml.
Extraction "extracted/judge.ml" judge_run.
