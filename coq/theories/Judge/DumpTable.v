(* Canonical numeric encoding of the symbol tables (independent twin: harness/src/encode_table.rs).

   Layout (enc_text, enc_list, enc_opt, enc_ident as in Dump.v / DumpAst.v; nat and N as numbers):
     range (a, b)        = a b
     dtype               = 0 (Int) | 1 (Bool) | 2 opt(size) opt(dtype base) text(creator)
     ventry              = ident(name) is_ref(0/1) opt(dtype) range opt(text doc)
     lentry              = 0 ventry (Variable) | 1 ventry (Parameter)
     ltable              = list of [text(key) lentry], SORTED by key (code point order)
     gentry              = 0 ident(name) opt(dtype) range opt(text doc)                          (Type)
                         | 1 ident(name) list(ventry parameters) ltable range opt(text doc)       (Procedure)
     gtable              = list of [text(key) gentry], SORTED by key *)
From Spl Require Export Judge.DumpAst Model.Table.

(* strict lexicographic order on texts (= Rust's `String` order: UTF-8 preserves code point order) *)
Fixpoint text_ltb (a b : text) : bool :=
  match a, b with
  | [], [] => false
  | [], _ :: _ => true
  | _ :: _, [] => false
  | x :: a', y :: b' => if x <? y then true else if y <? x then false else text_ltb a' b'
  end.

Fixpoint insert_sorted {V} (kv : text * V) (l : list (text * V)) : list (text * V) :=
  match l with
  | [] => [kv]
  | h :: r => if text_ltb (fst kv) (fst h) then kv :: l else h :: insert_sorted kv r
  end.

Definition sort_by_key {V} (l : list (text * V)) : list (text * V) :=
  fold_right insert_sorted [] l.

Fixpoint enc_dtype (d : dtype) : list N :=
  match d with
  | DInt => [0]
  | DBool => [1]
  | DArray size base creator =>
      2 :: enc_opt (fun v => [v]) size
        ++ match base with Some b => 1 :: enc_dtype b | None => [0] end
        ++ enc_text creator
  end.

Definition enc_range (r : range) : list N := [nn (fst r); nn (snd r)].

Definition enc_ventry (v : ventry) : list N :=
  enc_ident (ve_name v) ++ [if ve_ref v then 1 else 0] ++ enc_opt enc_dtype (ve_ty v)
  ++ enc_range (ve_range v) ++ enc_opt enc_text (ve_doc v).

Definition enc_lentry (e : lentry) : list N :=
  match e with
  | LVar v => 0 :: enc_ventry v
  | LParam v => 1 :: enc_ventry v
  end.

Definition enc_ltable (t : ltable) : list N :=
  enc_list (fun kv => enc_text (fst kv) ++ enc_lentry (snd kv)) (sort_by_key t).

Definition enc_gentry (e : gentry) : list N :=
  match e with
  | GTypeE t =>
      0 :: enc_ident (ten_name t) ++ enc_opt enc_dtype (ten_ty t) ++ enc_range (ten_range t)
        ++ enc_opt enc_text (ten_doc t)
  | GProcE p =>
      1 :: enc_ident (pe_name p) ++ enc_list enc_ventry (pe_params p) ++ enc_ltable (pe_local p)
        ++ enc_range (pe_range p) ++ enc_opt enc_text (pe_doc p)
  end.

Definition enc_gtable (t : gtable) : list N :=
  enc_list (fun kv => enc_text (fst kv) ++ enc_gentry (snd kv)) (sort_by_key t).
