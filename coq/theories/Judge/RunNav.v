(* Judge commands 30-36: the navigation handlers of lsp4spl (goto.rs, references.rs) on one
   document and a batch of cursor positions.

   Layout of the arguments (after the command number):
       npos, then npos pairs (line, UTF-16 column), then the document text as code points.
   Commands: 30 declaration, 31 definition, 32 typeDefinition, 33 implementation,
             34 references, 35 rename (ranges of the edits; the new name is not an input of the
             model: every edit carries the request's newName), 36 prepareRename.
   Output:   [3] / [2]        AnalyzedSource::new panics / the model runs out of fuel (never seen), else
             w :: for each position, in order:           (w = 0: the document satisfies Refs.nav_wf_b, the
                                                          hypothesis of the robustness theorems; w = 7: it does not)
                 [9]                      the handler panics (the real server goes mute)
                 [0]                      null
                 [1; l1; c1; l2; c2]      one range (30-33, 36)
                 1 :: n :: n * [l1; c1; l2; c2]   a list of ranges (34, 35), in the order of the answer
   [4] = malformed command.

   Command 37 (arguments: sel, then the document text; sel = 1: go-to, 2: references, 3: both) decides
   the instances of the full statements C12_full_statement / C13_full_statement (Spec/Nav.v) on one
   document:
       [3] / [2] as above, else
       w :: clean :: n :: n * [byte offset of the occurrence's identifier token] :: k12 :: k12 * [i] :: k13 :: k13 * [i]
   clean = 1 iff the text is analysed without diagnostics (Nav.is_clean: the hypothesis clean_doc),
   n = number of occurrences (Nav.occurrences), then the indices i of the occurrences at which
   Nav.agrees_at (the four go-to handlers = spec_declaration / spec_type_definition /
   spec_implementation at the first and the last column of the token; only if sel has bit 1) resp.
   Nav.refs_agree_at (references / rename / prepareRename = spec_references / spec_rename /
   spec_prepare; only if sel has bit 2) is false. *)
From Spl Require Export Judge.Dump.
From Spl Require Import Model.Goto Model.Refs Spec.Nav.

Definition enc_loc (l : loc) : list N :=
  [fst (fst l); snd (fst l); fst (snd l); snd (snd l)].

Definition enc_one (r : res (option loc)) : list N :=
  match r with
  | ROk None => [0]
  | ROk (Some l) => 1 :: enc_loc l
  | RFail _ => [9]
  end.

Definition enc_many (r : res (option (list loc))) : list N :=
  match r with
  | ROk None => [0]
  | ROk (Some l) => 1 :: enc_list enc_loc l
  | RFail _ => [9]
  end.

Fixpoint take_positions (n : nat) (l : list N) : option (list (N * N) * list N) :=
  match n with
  | O => Some ([], l)
  | S n' =>
      match l with
      | line :: col :: r =>
          match take_positions n' r with
          | Some (ps, t) => Some ((line, col) :: ps, t)
          | None => None
          end
      | _ => None
      end
  end.

Definition nav_handler (cmd : N) (d : doc) (p : N * N) : list N :=
  let (line, col) := p in
  match cmd with
  | 30 => enc_one (goto_declaration d line col)
  | 31 => enc_one (goto_definition d line col)
  | 32 => enc_one (goto_type_definition d line col)
  | 33 => enc_one (goto_implementation d line col)
  | 34 => enc_many (references d line col)
  | 35 => enc_many (rename d line col)
  | 36 => enc_one (prepare_rename d line col)
  | _ => [4]
  end.

Definition run_nav (cmd : N) (args : list N) : list N :=
  match args with
  | npos :: rest =>
      match take_positions (N.to_nat npos) rest with
      | Some (ps, t) =>
          match new_doc_res t with
          | ODone d => (if nav_wf_b d then 0 else 7) :: flat_map (nav_handler cmd d) ps
          | OFail _ => [3]
          | OFuel => [2]
          end
      | None => [4]
      end
  | [] => [4]
  end.

(* command 37 *)
Definition failing (f : doc -> occ -> bool) (d : doc) (occs : list occ) : list nat :=
  map fst (filter (fun p => negb (f d (snd p))) (combine (seq 0 (length occs)) occs)).

Definition occ_offset (d : doc) (o : occ) : N :=
  match nth_error (d_toks d) (o_tok o) with Some t => ts t | None => 0 end.

Definition run_nav_full (args : list N) : list N :=
  match args with
  | sel :: t =>
      match new_doc_res t with
      | ODone d =>
          let occs := occurrences (d_ast d) in
          (if nav_wf_b d then 0 else 7) :: (if is_clean t then 1 else 0)
          :: enc_list (fun o => [occ_offset d o]) occs
          ++ enc_list (fun i => [N.of_nat i]) (if N.testbit sel 0 then failing agrees_at d occs else [])
          ++ enc_list (fun i => [N.of_nat i]) (if N.testbit sel 1 then failing refs_agree_at d occs else [])
      | OFail _ => [3]
      | OFuel => [2]
      end
  | [] => [4]
  end.
