(* C01 judge command 17: an edit history through the model of AnalyzedSource::update up to the tree.
     args:   n old[n] q ( k ( cs ce m ins[m] ){k} ){q}        q notifications of k changes each
     output: 0 then per notification   0 div len enc[len]   (div = 1: the updated document differs from a fresh
             analysis of its text, i.e. the known divergence of the pinned incremental parser; enc = the whole
             updated document: tree with every attached diagnostic, errors() (or a marker when it panics), table)
             | 1 (update panics; the history ends) | 2 out of fuel | 3 a change does not address the current text *)
From Spl Require Import Judge.DumpAst Judge.RunSem Model.UpdateDoc.

Fixpoint take_bytes' (n : N) (s : text) (fuel : nat) : option (text * text) :=
  if n =? 0 then Some ([], s) else
  match fuel with
  | O => None
  | S f =>
      match s with
      | [] => None
      | c :: r => if n <? ulen c then None
                  else match take_bytes' (n - ulen c) r f with Some (p, q) => Some (c :: p, q) | None => None end
      end
  end.

(* the text as a ++ d ++ b with |a| = cs and |a ++ d| = ce bytes *)
Definition split_change (t : text) (cs ce : N) : option (text * text * text) :=
  if ce <? cs then None else
  match take_bytes' cs t (length t) with
  | Some (a, r) =>
      match take_bytes' (ce - cs) r (length r) with
      | Some (d, b) => Some (a, d, b)
      | None => None
      end
  | None => None
  end.

Definition enc_doc (d : doc) : list N :=
  enc_program (d_ast d) ++
  match doc_errors d with
  | Done errs => 1 :: enc_list enc_berr errs
  | _ => [0]
  end ++ enc_gtable (d_table d).

Definition doc_differs (d : doc) : N :=
  match new_doc (d_text d) with
  | Done f => if nlist_eqb (enc_doc f) (enc_doc d) then 0 else 1
  | _ => 1
  end.

Definition split_at' (n : N) (l : list N) : list N * list N :=
  (firstn (N.to_nat n) l, skipn (N.to_nat n) l).

(* the k changes of one notification as a/d/b decompositions of the successive texts *)
Fixpoint read_changes (k : nat) (t : text) (l : list N) : option (list tchange * list N) :=
  match k with
  | O => Some ([], l)
  | S k' =>
      match l with
      | cs :: ce :: m :: r =>
          let (ins, r') := split_at' m r in
          match split_change t cs ce with
          | Some (a, d, b) =>
              match read_changes k' (a ++ ins ++ b) r' with
              | Some (cl, r2) => Some ({| c_a := a; c_d := d; c_b := b; c_ins := ins |} :: cl, r2)
              | None => None
              end
          | None => None
          end
      | _ => None
      end
  end.

Fixpoint run_notes (q : nat) (d : doc) (l : list N) : list N :=
  match q with
  | O => []
  | S q' =>
      match l with
      | k :: r =>
          match read_changes (N.to_nat k) (d_text d) r with
          | Some (cl, r') =>
              match update_doc d cl with
              | Done d' => let e := enc_doc d' in 0 :: doc_differs d' :: nlen e :: e ++ run_notes q' d' r'
              | Panic => [1]
              | OutOfFuel => [2]
              end
          | None => [3]
          end
      | [] => [3]
      end
  end.

Definition run_hist (args : list N) : list N :=
  match args with
  | n :: rest =>
      let (old, rest1) := split_at' n rest in
      match rest1 with
      | q :: r =>
          match new_doc old with
          | Done d => 0 :: run_notes (N.to_nat q) d r
          | Panic => [1]
          | OutOfFuel => [2]
          end
      | [] => [4]
      end
  | [] => [4]
  end.
