(* C01 judge command 17: an edit history through the model of AnalyzedSource::update up to the tree.
     args:   n old[n] q ( k ( cs ce m ins[m] ){k} ){q}        q notifications of k changes each
     output: 0 then per notification   0 div len enc[len]   (div = 1: the model's updated tree differs from a
             parse from scratch of the same tokens, i.e. the known divergence of the pinned incremental parser;
             enc = enc_program of the updated tree) | 1 (panic inside parser::update; the history ends)
             | 2 out of fuel | 3 a change does not address the current text *)
From Spl Require Import Judge.DumpAst Model.Update.

Fixpoint take_bytes' (n : N) (s : text) (fuel : nat) : option (text * text) :=
  if n =? 0 then Some ([], s) else
  match fuel with
  | O => None
  | S f =>
      match s with
      | [] => None
      | c :: r => if n <? ulen c then None
                  else match take_bytes' (n - ulen c) r f with Some (p, q) => Some (c :: p, q) | None => None end
      end
  end.

(* the text as a ++ d ++ b with |a| = cs and |a ++ d| = ce bytes *)
Definition split_change (t : text) (cs ce : N) : option (text * text * text) :=
  if ce <? cs then None else
  match take_bytes' cs t (length t) with
  | Some (a, r) =>
      match take_bytes' (ce - cs) r (length r) with
      | Some (d, b) => Some (a, d, b)
      | None => None
      end
  | None => None
  end.

Definition tree_differs (doc : pdoc) : N :=
  match parse (p_toks doc) with
  | Done p => if nlist_eqb (enc_program p) (enc_program (p_tree doc)) then 0 else 1
  | _ => 1
  end.

Definition split_at' (n : N) (l : list N) : list N * list N :=
  (firstn (N.to_nat n) l, skipn (N.to_nat n) l).

(* the k changes of one notification *)
Fixpoint run_changes (k : nat) (doc : pdoc) (l : list N) : option (outcome pdoc * list N) :=
  match k with
  | O => Some (Done doc, l)
  | S k' =>
      match l with
      | cs :: ce :: m :: r =>
          let (ins, r') := split_at' m r in
          match split_change (p_text doc) cs ce with
          | Some (a, d, b) =>
              match pstep doc a d b ins with
              | Done doc' => run_changes k' doc' r'
              | o => Some (o, r')
              end
          | None => None
          end
      | _ => None
      end
  end.

Fixpoint run_notes (q : nat) (doc : pdoc) (l : list N) : list N :=
  match q with
  | O => []
  | S q' =>
      match l with
      | k :: r =>
          match run_changes (N.to_nat k) doc r with
          | Some (Done doc', r') =>
              let e := enc_program (p_tree doc') in
              0 :: tree_differs doc' :: nlen e :: e ++ run_notes q' doc' r'
          | Some (Panic, _) => [1]
          | Some (OutOfFuel, _) => [2]
          | None => [3]
          end
      | [] => [3]
      end
  end.

Definition run_hist (args : list N) : list N :=
  match args with
  | n :: rest =>
      let (old, rest1) := split_at' n rest in
      match rest1 with
      | q :: r =>
          match pnew old with
          | Done doc => 0 :: run_notes (N.to_nat q) doc r
          | Panic => [1]
          | OutOfFuel => [2]
          end
      | [] => [4]
      end
  | [] => [4]
  end.
