(* Judge command 8: the text (code points) -> AnalyzedSource::new(text), .errors() and .table.
   Output: 0 :: list of (start byte, end byte, enc_emsg) ++ enc_gtable table; [1] on a panic of
   either new() or errors(); [2] when the model runs out of fuel. *)
From Spl Require Export Judge.DumpTable Model.Errors.

Definition enc_berr (x : N * N * emsg) : list N :=
  let '(s, e, m) := x in [s; e] ++ enc_emsg m.

Definition run_sem (args : list N) : list N :=
  match new_doc args with
  | Done d =>
      match doc_errors d with
      | Done errs => 0 :: enc_list enc_berr errs ++ enc_gtable (d_table d)
      | Panic => [1]
      | OutOfFuel => [2]
      end
  | Panic => [1]
  | OutOfFuel => [2]
  end.
