(* Judge commands 50 (semanticTokens/full) and 51 (completion).
   50: args = the text (code points).
       Output: 0 :: wf :: spec :: data (five numbers per token, as in the response) when the handler
               answers, [1; wf] when it panics, [2] when the model runs out of fuel / AnalyzedSource::new
               panics; wf = 1 iff SemTok.doc_wf_b holds for the analysed document;
               spec = 0 when the document has diagnostics (the classification part of C15 does not
               apply), otherwise 1 + (2 if part (a) of SemTokProofs.semtok_full_statement fails for this
               document) + (1 if part (b) fails) - so 1 = the full statement holds here.
   51: args = line :: column :: text.
       Output: [0; flag; 0] for the answer `null`; 0 :: flag :: 1 :: n :: the n items, each encoded as
               enc_text label ++ [kind] ++ opt detail ++ opt documentation ++ opt insert_text, SORTED
               (the Rust code iterates HashMaps); [1] panic; [2] fuel.
               flag = Completion.full_flag: 0 no claim of C16 at this position, 1 the answer meets the
               property (CompletionProofs.completion_full_statement at this document and position), 2 not;
               plus 4 when Completion.compl_wf_b does NOT hold for the analysed document (the hypothesis of
               CompletionProofs.propose_no_panic) - so 0, 1, 2 also say that it holds. *)
From Spl Require Export Judge.Dump Model.Completion.

Definition enc_semtok (s : semtok) : list N := [st_dl s; st_ds s; st_len s; st_ty s; st_mod s].

Definition b2n (b : bool) : N := if b then 1 else 0.

Definition abstok_eqb (a b : abstok) : bool :=
  (at_line a =? at_line b) && (at_col a =? at_col b) && (at_len a =? at_len b)
  && (at_ty a =? at_ty b) && (at_mod a =? at_mod b).

(* the two parts of SemTokProofs.semtok_full_statement, decided for one document *)
Definition full_a_b (d : doc) (dec : list abstok) : bool :=
  forallb (fun k => match map_class (tk k) with
                    | Some c => existsb (abstok_eqb (tok_view (d_text d) (k, c))) dec
                    | None => true
                    end) (d_toks d).

Definition full_b_b (d : doc) (dec : list abstok) : bool :=
  forallb (fun o : occ => match snd o, nth_error (d_toks d) (fst o) with
                          | Some c, Some k => existsb (abstok_eqb (tok_view (d_text d) (k, c))) dec
                          | _, _ => true
                          end) (doc_occs d).

Definition spec_flag (d : doc) (data : list semtok) : N :=
  match doc_errors d with
  | Done [] =>
      let dec := decode data in
      1 + (if full_a_b d dec then 0 else 2) + (if full_b_b d dec then 0 else 1)
  | _ => 0
  end.

Definition run_semtok (args : list N) : list N :=
  match new_doc args with
  | Done d =>
      match semantic_tokens d with
      | SOk data => 0 :: b2n (doc_wf_b d) :: spec_flag d data :: flat_map enc_semtok data
      | SFail _ => [1; b2n (doc_wf_b d)]
      end
  | Panic => [2]
  | OutOfFuel => [2]
  end.

Definition enc_opt_text (o : option text) : list N :=
  match o with Some t => 1 :: enc_text t | None => [0] end.

Definition enc_item (i : item) : list N :=
  enc_text (it_label i) ++ [it_kind i] ++ enc_opt_text (it_detail i) ++ enc_opt_text (it_doc i)
  ++ enc_opt_text (it_insert i).

(* lexicographic order on number lists; a proper prefix is smaller *)
Fixpoint nlist_leb (a b : list N) : bool :=
  match a, b with
  | [], _ => true
  | _ :: _, [] => false
  | x :: a', y :: b' => if x <? y then true else if y <? x then false else nlist_leb a' b'
  end.

Fixpoint insert_sorted (x : list N) (l : list (list N)) : list (list N) :=
  match l with
  | [] => [x]
  | y :: r => if nlist_leb x y then x :: l else y :: insert_sorted x r
  end.

Definition sort_nlists (l : list (list N)) : list (list N) := fold_right insert_sorted [] l.

Definition wf_mark (d : doc) (flag : N) : N := if compl_wf_b d then flag else flag + 4.

Definition run_completion (args : list N) : list N :=
  match args with
  | line :: col :: t =>
      match new_doc t with
      | Done d =>
          match propose d line col with
          | ROk None => [0; wf_mark d (full_flag_of d line col (ROk None)); 0]
          | ROk (Some items) =>
              0 :: wf_mark d (full_flag_of d line col (ROk (Some items))) :: 1 :: nlen items
                :: concat (sort_nlists (map enc_item items))
          | RFail _ => [1]
          end
      | Panic => [2]
      | OutOfFuel => [2]
      end
  | _ => [4]
  end.
