(* Judge entry for the formatter (C09-C11): args = insert_spaces :: tab_size :: code points of the document.
   Output: 0 0 (null) | 0 1 sl sc el ec enc_text(newText) | 1 (panic) | 2 (out of fuel). *)
From Spl Require Export Judge.Dump.
From Spl Require Import Model.Format.

Definition run_fmt (args : list N) : list N :=
  match args with
  | ins :: ts :: doc =>
      match format_request doc (ins =? 1) ts with
      | Done None => [0; 0]
      | Done (Some (((sl, sc), (el, ec)), nt)) => 0 :: 1 :: sl :: sc :: el :: ec :: enc_text nt
      | Panic => [1]
      | OutOfFuel => [2]
      end
  | _ => [4]
  end.
