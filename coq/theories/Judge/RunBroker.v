(* C20 judge entry point: the sequential specification [Broker.seq_run] of the reader / broker /
   responder system, instantiated with the text model of Model/Doc.v:

     uri      := N (index into the session's URI table), compared with N.eqb
     dstate   := option text      (None: String::replace_range would have panicked - never for ordered ranges)
     payload  := POpen text | PChange (list change)
     open_doc := the text;  change_doc := Doc.apply_changes
     req      := (kind, uri);  answer of kind 0 (`$/verif/text`) := the stored text, of any other kind := opaque
     diag     := the text the diagnostics are computed from

   Command (after the leading 21):   mode sd n msg_1 .. msg_n
     sd = 1: the client announced publishDiagnostics
     msg ::= 0 u m c_1..c_m                               didOpen u with the text c_1..c_m (code points)
           | 1 u k (hr l1 c1 l2 c2 m c_1..c_m){k}         didChange u, k content changes (hr = 1: ranged, 0: full text)
           | 2 u                                          didClose u
           | 3 id kind u                                  request through the broker (GetInfo u); kind 0 = `$/verif/text`
           | 4 id k                                       request answered by the reader alone (k = 0 unknown method,
                                                          1 = repeated initialize)
           | 5                                            any other notification (dropped)
   Output, mode 0:  #responses (id answer)*  #diagnostics uri*      in the order of the two streams
             answer ::= 0 (null) | 1 len c_1..c_len (text) | 9 (broker panicked) | 2 (opaque result) | 3 k (reader's error)
           mode 1:  #diagnostics (uri text-state)*   text-state ::= 1 len c_1..c_len | 9 *)
From Coq Require Import List NArith Bool.
Import ListNotations.
From Spl Require Import Model.Doc.
From Spl Require Model.Broker.
Open Scope N_scope.

Inductive bpayload := POpen (t : text) | PChange (chs : list change).

Definition b_open (p : bpayload) : option text :=
  match p with POpen t => Some t | PChange _ => None end.

Definition b_change (d : option text) (p : bpayload) : option text :=
  match d, p with
  | Some t, PChange chs => apply_changes t chs
  | _, _ => None
  end.

Definition b_len {A} (l : list A) : N := N.of_nat (length l).

Definition b_state (d : option text) : list N :=
  match d with Some t => 1 :: b_len t :: t | None => [9] end.

Definition b_answer (r : N * N) (d : option (option text)) : list N :=
  if fst r =? 0 then match d with None => [0] | Some x => b_state x end else [2].

Definition b_local (k : N) : list N := [3; k].

Definition b_diag (_ : N) (d : option text) : list N := b_state d.

Definition bmsg := Broker.cmsg N bpayload (N * N).
Definition bout := Broker.out N (list N).

Definition b_spec (sd : bool) (ms : list bmsg) : list bout :=
  Broker.seq_run N N.eqb (option text) bpayload (N * N) (list N) b_open b_change snd b_answer b_local b_diag sd [] ms.

Fixpoint parse_chs (k : nat) (l : list N) : list change * list N :=
  match k with
  | O => ([], l)
  | S k' =>
      match l with
      | hr :: l1 :: c1 :: l2 :: c2 :: m :: r =>
          let (chs, rest) := parse_chs k' (skipn (N.to_nat m) r) in
          ({| crange := if hr =? 1 then Some ((l1, c1), (l2, c2)) else None;
              ctext := firstn (N.to_nat m) r |} :: chs, rest)
      | _ => ([], [])
      end
  end.

Fixpoint parse_msgs (n : nat) (l : list N) : list bmsg :=
  match n with
  | O => []
  | S n' =>
      match l with
      | 0 :: u :: m :: r =>
          Broker.COpen N bpayload (N * N) u (POpen (firstn (N.to_nat m) r)) :: parse_msgs n' (skipn (N.to_nat m) r)
      | 1 :: u :: k :: r =>
          let (chs, rest) := parse_chs (N.to_nat k) r in
          Broker.CChange N bpayload (N * N) u (PChange chs) :: parse_msgs n' rest
      | 2 :: u :: r => Broker.CClose N bpayload (N * N) u :: parse_msgs n' r
      | 3 :: id :: kind :: u :: r => Broker.CReq N bpayload (N * N) id (kind, u) :: parse_msgs n' r
      | 4 :: id :: k :: r => Broker.CLocal N bpayload (N * N) id k :: parse_msgs n' r
      | 5 :: r => Broker.CIgnored N bpayload (N * N) :: parse_msgs n' r
      | _ => []
      end
  end.

Definition enc_resp (o : bout) : list N :=
  match o with Broker.OResp _ _ id a => id :: a | Broker.ODiag _ _ _ _ => [] end.
Definition enc_diag_uri (o : bout) : list N :=
  match o with Broker.ODiag _ _ u _ => [u] | Broker.OResp _ _ _ _ => [] end.
Definition enc_diag_full (o : bout) : list N :=
  match o with Broker.ODiag _ _ u a => u :: a | Broker.OResp _ _ _ _ => [] end.

Definition run_broker (args : list N) : list N :=
  match args with
  | mode :: sd :: n :: rest =>
      let o := b_spec (sd =? 1) (parse_msgs (N.to_nat n) rest) in
      let rs := Broker.responses N (list N) o in
      let ds := Broker.diagnostics N (list N) o in
      if mode =? 0 then (b_len rs :: flat_map enc_resp rs) ++ (b_len ds :: flat_map enc_diag_uri ds)
      else if mode =? 1 then b_len ds :: flat_map enc_diag_full ds
      else [98]
  | _ => [98]
  end.
