(* C19 judge entry point: a command (list of numbers) to the canonical encoding of the codec
   model's output.  The same command language and encoding as harness/src/bin/codec_direct.rs.

     1 b1 .. bn                     decode of the n bytes
        -> 0                         NeedMore
           1 consumed len body..     Frame
           2                         Bad
           3                         Crash
     2 k n1 c1.. n2 c2.. ..         run_chunks (every body except `null` counts as a message) of the k chunks
        -> count events..            0 len body.. EMsg | 1 EErr | 2 len body.. EBadJson | 3 ECrash | 4 ETrailing
     3 b1 .. bn                     encode_frame of the n bytes (the serialised message)
        -> 0 e1 .. em                the frame *)
From Coq Require Import List NArith Bool.
Import ListNotations.
From Spl Require Import Model.Codec.
Open Scope N_scope.

Definition enc_dres (r : dres) : list N :=
  match r with
  | NeedMore => [0]
  | Frame m n => 1 :: n :: blen m :: m
  | Bad => [2]
  | Crash => [3]
  end.

Definition enc_event (e : event) : list N :=
  match e with
  | EMsg m => 0 :: blen m :: m
  | EErr => [1]
  | EBadJson m => 2 :: blen m :: m
  | ECrash => [3]
  | ETrailing => [4]
  end.

Fixpoint take_chunks (k : nat) (l : list N) : list (list N) :=
  match k with
  | O => []
  | S k' =>
      match l with
      | [] => []
      | n :: r => firstn (N.to_nat n) r :: take_chunks k' (skipn (N.to_nat n) r)
      end
  end.

(* Body classification used by the judge: the generators put only bodies that deserialise to a
   Message into command-2 streams, except for the JSON text `null` (optionally surrounded by JSON
   whitespace), the regression witness corpus/C19/null_body.json, which is not a message. *)
Definition is_json_ws (b : N) : bool := (b =? 32) || (b =? 9) || (b =? 10) || (b =? 13).
Definition is_null_body (body : list N) : bool :=
  bytes_eqb (rev (drop_while is_json_ws (rev (drop_while is_json_ws body)))) [110; 117; 108; 108].
Definition judge_json_ok (body : list N) : bool := negb (is_null_body body).

Definition run_codec (cmd : list N) : list N :=
  match cmd with
  | c :: args =>
      if c =? 1 then enc_dres (decode args)
      else if c =? 2 then
        match args with
        | k :: rest =>
            let evs := run_chunks judge_json_ok (take_chunks (N.to_nat k) rest) in
            N.of_nat (length evs) :: flat_map enc_event evs
        | [] => [98]
        end
      else if c =? 3 then 0 :: encode_frame args
      else [98]
  | [] => [98]
  end.
