(* Canonical numeric encoding of the syntax tree with all attached diagnostics
   (independent twin: harness/src/encode_ast.rs). *)
From Spl Require Export Judge.Dump Model.Ast.

Definition nn (n : nat) : N := N.of_nat n.

Definition enc_opt {A} (f : A -> list N) (o : option A) : list N :=
  match o with Some x => 1 :: f x | None => [0] end.

Definition enc_pmsg (m : pmsg) : list N :=
  match m with
  | MissingOpening c => [0; c]
  | MissingClosing c => [1; c]
  | MissingTrailingSemic => [2]
  | UnexpectedCharacters s => 3 :: enc_text s
  | ExpectedToken s => 4 :: enc_text s
  | ConfusedToken a b => 5 :: enc_text a ++ enc_text b
  end.

Definition enc_bmsg (m : bmsg) : list N :=
  match m with
  | UndefinedType n => 0 :: enc_text n
  | NotAType n => 1 :: enc_text n
  | RedeclarationAsType n => 2 :: enc_text n
  | MustBeAReferenceParameter n => 3 :: enc_text n
  | RedeclarationAsProcedure n => 4 :: enc_text n
  | RedeclarationAsParameter n => 5 :: enc_text n
  | RedeclarationAsVariable n => 6 :: enc_text n
  | MainIsMissing => [7]
  | MainIsNotAProcedure => [8]
  | MainMustNotHaveParameters => [9]
  end.

Definition enc_smsg (m : smsg) : list N :=
  match m with
  | AssignmentHasDifferentTypes => [0]
  | AssignmentRequiresIntegers => [1]
  | IfConditionMustBeBoolean => [2]
  | WhileConditionMustBeBoolean => [3]
  | UndefinedProcedure n => 4 :: enc_text n
  | CallOfNoneProcedure n => 5 :: enc_text n
  | ArgumentsTypeMismatch n i => 6 :: enc_text n ++ [nn i]
  | ArgumentMustBeAVariable n i => 7 :: enc_text n ++ [nn i]
  | TooFewArguments n => 8 :: enc_text n
  | TooManyArguments n => 9 :: enc_text n
  | OperatorDifferentTypes => [10]
  | ComparisonNonInteger => [11]
  | ArithmeticOperatorNonInteger => [12]
  | UndefinedVariable n => 13 :: enc_text n
  | NotAVariable n => 14 :: enc_text n
  | IndexingNonArray => [15]
  | IndexingWithNonInteger => [16]
  end.

Definition enc_emsg (m : emsg) : list N :=
  match m with
  | EParse m => 1 :: enc_pmsg m
  | EBuild m => 2 :: enc_bmsg m
  | ESem m => 3 :: enc_smsg m
  end.

Definition enc_err (e : err) : list N := [nn (e_s e); nn (e_e e)] ++ enc_emsg (e_m e).
Definition enc_info (i : info) : list N := [nn (i_s i); nn (i_e i)] ++ enc_list enc_err (i_errs i).
Definition enc_ref {A} (f : A -> list N) (r : A * nat) : list N := nn (snd r) :: f (fst r).

Definition enc_ident (i : ident) : list N := enc_text (id_val i) ++ enc_info (id_info i).
Definition enc_intlit (i : intlit) : list N := enc_opt (fun v => [v]) (il_val i) ++ enc_info (il_info i).

Definition op_tag (o : operator) : N :=
  match o with
  | OAdd => 0 | OSub => 1 | OMul => 2 | ODiv => 3 | OEqu => 4 | ONeq => 5 | OLst => 6 | OLse => 7 | OGrt => 8 | OGre => 9
  end.

Fixpoint enc_var (v : variable) : list N :=
  match v with
  | NamedVar i => 0 :: enc_ident i
  | ArrAccess a idx inf =>
      1 :: enc_var a ++ match idx with Some (e, off) => 1 :: nn off :: enc_expr e | None => [0] end ++ enc_info inf
  end
with enc_expr (e : expr) : list N :=
  match e with
  | EBin op l r inf => 0 :: op_tag op :: enc_expr l ++ enc_expr r ++ enc_info inf
  | EBrack x inf => 1 :: enc_expr x ++ enc_info inf
  | EInt i => 2 :: enc_intlit i
  | EUn op x inf => 3 :: op_tag op :: enc_expr x ++ enc_info inf
  | EVar v => 4 :: enc_var v
  | EErr inf => 5 :: enc_info inf
  end.

Fixpoint enc_texpr (t : typeexpr) : list N :=
  match t with
  | TNamed i => 0 :: enc_ident i
  | TArray size base inf =>
      1 :: enc_opt enc_intlit size ++
      match base with Some (b, off) => 1 :: nn off :: enc_texpr b | None => [0] end ++ enc_info inf
  end.

Definition enc_docs (d : list text) : list N := enc_list enc_text d.

Fixpoint enc_stmt (s : stmt) : list N :=
  let enc_sref (r : option (stmt * nat)) :=
    match r with Some (x, off) => 1 :: nn off :: enc_stmt x | None => [0] end in
  match s with
  | SEmpty inf => 0 :: enc_info inf
  | SAssign v e inf => 1 :: enc_var v ++ enc_opt (enc_ref enc_expr) e ++ enc_info inf
  | SCall name args inf => 2 :: enc_ident name ++ enc_list (enc_ref enc_expr) args ++ enc_info inf
  | SIf c t e inf => 3 :: enc_opt (enc_ref enc_expr) c ++ enc_sref t ++ enc_sref e ++ enc_info inf
  | SWhile c b inf => 4 :: enc_opt (enc_ref enc_expr) c ++ enc_sref b ++ enc_info inf
  | SBlock body inf =>
      5 :: nlen body :: (fix go (l : list (stmt * nat)) : list N :=
                           match l with [] => [] | (x, off) :: r => nn off :: enc_stmt x ++ go r end) body
        ++ enc_info inf
  | SError inf => 6 :: enc_info inf
  end.

Definition enc_vardecl (v : vardecl) : list N :=
  match v with
  | VValid doc name ty inf =>
      0 :: enc_docs doc ++ enc_opt enc_ident name ++ enc_opt (enc_ref enc_texpr) ty ++ enc_info inf
  | VError inf => 1 :: enc_info inf
  end.

Definition enc_paramdecl (p : paramdecl) : list N :=
  match p with
  | PValid doc is_ref name ty inf =>
      0 :: enc_docs doc ++ [if is_ref then 1 else 0] ++ enc_opt enc_ident name
        ++ enc_opt (enc_ref enc_texpr) ty ++ enc_info inf
  | PError inf => 1 :: enc_info inf
  end.

Definition enc_gdecl (g : gdecl) : list N :=
  match g with
  | GType d =>
      0 :: enc_docs (td_doc d) ++ enc_opt enc_ident (td_name d) ++ enc_opt (enc_ref enc_texpr) (td_ty d)
        ++ enc_info (td_info d)
  | GProc d =>
      1 :: enc_docs (pd_doc d) ++ enc_opt enc_ident (pd_name d)
        ++ enc_list (enc_ref enc_paramdecl) (pd_params d)
        ++ enc_list (enc_ref enc_vardecl) (pd_vars d)
        ++ enc_list (enc_ref enc_stmt) (pd_stmts d)
        ++ enc_info (pd_info d)
  | GError inf => 2 :: enc_info inf
  end.

Definition enc_program (p : program) : list N :=
  enc_list (enc_ref enc_gdecl) (pg_decls p) ++ enc_info (pg_info p).
