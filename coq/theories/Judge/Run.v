(* Single entry point of the judges: a command (list of numbers) to the canonical encoding of the
   model's output.  Used by the kernel judge (cases_*.v, vm_compute) and by the extracted driver. *)
From Spl Require Export Judge.Dump.
From Spl Require Model.Lifecycle Model.Doc.
From Spl Require Judge.RunCodec.
From Spl Require Judge.RunHist.
From Spl Require Judge.RunBroker.
From Spl Require Judge.RunGrammar.
From Spl Require Judge.RunSem.
From Spl Require Judge.RunFmt.
From Spl Require Judge.RunSemTok.
From Spl Require Judge.RunNav.
From Spl Require Judge.RunHover.
From Spl Require Import Judge.DumpAst Model.Parser Model.ParserInc.

Fixpoint take_bytes (n : N) (s : text) (fuel : nat) : option text :=
  if n =? 0 then Some [] else
  match fuel with
  | O => None
  | S f =>
      match s with
      | [] => None
      | c :: r => if n <? ulen c then None
                  else match take_bytes (n - ulen c) r f with Some p => Some (c :: p) | None => None end
      end
  end.

(* String::replace_range(cs..ce, ins); None = panic (not a char boundary / out of range) *)
Definition replace_range (s : text) (cs ce : N) (ins : text) : option text :=
  if ce <? cs then None else
  match take_bytes cs s (length s), str_from ce s with
  | Some a, Some b => Some (a ++ ins ++ b)
  | _, _ => None
  end.

Definition split_at (n : N) (l : list N) : list N * list N :=
  (firstn (N.to_nat n) l, skipn (N.to_nat n) l).

Definition run_lex (args : list N) : list N := enc_lex (lex args).

Definition run_update (args : list N) : list N :=
  match args with
  | n :: rest =>
      let (old, rest1) := split_at n rest in
      match rest1 with
      | cs :: ce :: ins =>
          match replace_range old cs ce ins, lex old with
          | Some new, Some toks => enc_update (lex_update new toks cs ce ins)
          | _, _ => [3]
          end
      | _ => [4]
      end
  | _ => [4]
  end.

Definition run_parse (args : list N) : list N :=
  match lex args with
  | Some toks =>
      match parse toks with
      | Done p => 0 :: enc_program p
      | Panic => [1]
      | OutOfFuel => [2]
      end
  | None => [2]
  end.

(* incremental parse of one change: old text, change; the old tree is parser::parse of the old tokens *)
Definition run_incparse (args : list N) : list N :=
  match args with
  | n :: rest =>
      let (old, rest1) := split_at n rest in
      match rest1 with
      | cs :: ce :: ins =>
          match replace_range old cs ce ins, lex old with
          | Some new, Some otoks =>
              match parse otoks, lex_update new otoks cs ce ins with
              | Done tree, UDone ntoks a b k =>
                  match parse_update tree ntoks a b k with
                  | Done p => 0 :: enc_program p
                  | Panic => [1]
                  | OutOfFuel => [2]
                  end
              | _, _ => [5]
              end
          | _, _ => [3]
          end
      | _ => [4]
      end
  | _ => [4]
  end.

Definition run_parse_via_inc (args : list N) : list N :=
  match lex args with
  | Some toks =>
      match parse_via_inc toks with
      | Done p => 0 :: enc_program p
      | Panic => [1]
      | OutOfFuel => [2]
      end
  | None => [2]
  end.

(* ---- C18: [clean; (isreq, method)*]; request ids are the 1-based message positions ---- *)
Module LC.
Import Spl.Model.Lifecycle.
Definition meth_of (k : N) : meth :=
  match k with
  | 0 => MInitialize | 1 => MShutdown | 2 => MSupported 0 | 3 => MInitialized
  | 4 => MExit | 5 => MDoc 0 | _ => MOther 0
  end.
Fixpoint msgs_of (pos : Z) (l : list N) : list msg :=
  match l with
  | isreq :: k :: r =>
      (if isreq =? 1 then Req pos (meth_of k) else Notif (meth_of k)) :: msgs_of (pos + 1)%Z r
  | _ => []
  end.
Definition enc_answer (a : answer) : N :=
  match a with
  | Result => 0 | Error ServerNotInitialized => 1 | Error InvalidRequest => 2 | Error MethodNotFound => 3
  end.
Definition run_lifecycle (args : list N) : list N :=
  match args with
  | clean :: l =>
      match Lifecycle.run (msgs_of 1%Z l) (clean =? 1) with
      | (PExited st, rs) => st :: nlen rs :: flat_map (fun r => [Z.to_N (rid r); enc_answer (rans r)]) rs
      | _ => [99]
      end
  | [] => [4]
  end.
End LC.

(* ---- C08: positions and content changes ---- *)
Module DC.
Import Spl.Model.Doc.
Definition run_gii (args : list N) : list N :=
  match args with l :: c :: t => [get_insertion_index l c t] | _ => [4] end.
Definition run_pos (args : list N) : list N :=
  match args with i :: t => let p := as_position i t in [fst p; snd p] | _ => [4] end.
(* changes: k, then per change: has_range, l1, c1, l2, c2, m, ins[m] *)
Fixpoint parse_changes (k : nat) (l : list N) : list change :=
  match k with
  | O => []
  | S k' =>
      match l with
      | hr :: l1 :: c1 :: l2 :: c2 :: m :: r =>
          let (ins, r') := split_at m r in
          {| crange := if hr =? 1 then Some ((l1, c1), (l2, c2)) else None; ctext := ins |} :: parse_changes k' r'
      | _ => []
      end
  end.
Definition run_apply (args : list N) : list N :=
  match args with
  | n :: rest =>
      let (t, rest1) := split_at n rest in
      match rest1 with
      | k :: r =>
          match apply_changes t (parse_changes (N.to_nat k) r) with
          | Some t' => 0 :: enc_text t'
          | None => [1]
          end
      | _ => [4]
      end
  | _ => [4]
  end.
End DC.

Definition judge_run (cmd : list N) : list N :=
  match cmd with
  | 1 :: args => run_lex args
  | 2 :: args => run_update args
  | 3 :: args => LC.run_lifecycle args
  | 4 :: args => DC.run_gii args
  | 5 :: args => DC.run_pos args
  | 6 :: args => DC.run_apply args
  | 7 :: args => run_parse args
  | 8 :: args => RunSem.run_sem args
  | 9 :: args => RunFmt.run_fmt args
  | 14 :: args => run_incparse args
  | 15 :: args => run_parse_via_inc args
  | 17 :: args => RunHist.run_hist args
  | 10 :: args => RunGrammar.run_grammar args
  | 11 :: args => RunCodec.run_codec (1 :: args)
  | 12 :: args => RunCodec.run_codec (2 :: args)
  | 13 :: args => RunCodec.run_codec (3 :: args)
  | 21 :: args => RunBroker.run_broker args
  | 50 :: args => RunSemTok.run_semtok args
  | 51 :: args => RunSemTok.run_completion args
  | 40 :: args => RunHover.run_hover args
  | 41 :: args => RunHover.run_sighelp args
  | 42 :: args => RunHover.run_fold args
  | 140 :: args => RunHover.run_batch args
  | 30 :: args => RunNav.run_nav 30 args
  | 31 :: args => RunNav.run_nav 31 args
  | 32 :: args => RunNav.run_nav 32 args
  | 33 :: args => RunNav.run_nav 33 args
  | 34 :: args => RunNav.run_nav 34 args
  | 35 :: args => RunNav.run_nav 35 args
  | 36 :: args => RunNav.run_nav 36 args
  | 37 :: args => RunNav.run_nav_full args
  | _ => [4]
  end.
