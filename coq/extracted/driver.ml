(* Line-oriented driver around the extracted model: each input line is a command, a list of
   non-negative integers separated by spaces; the output line is the encoding computed by
   [Judge.run]. *)
open Judge

let rec pos_of_int (n : int) : positive =
  if n = 1 then XH
  else if n land 1 = 0 then XO (pos_of_int (n lsr 1))
  else XI (pos_of_int (n lsr 1))

let n_of_int (n : int) : n = if n = 0 then N0 else Npos (pos_of_int n)

let rec int_of_pos (p : positive) : int =
  match p with XH -> 1 | XO q -> 2 * int_of_pos q | XI q -> 2 * int_of_pos q + 1

let int_of_n (x : n) : int = match x with N0 -> 0 | Npos p -> int_of_pos p

let () =
  let buf = Buffer.create 65536 in
  try
    while true do
      let line = input_line stdin in
      let parts = String.split_on_char ' ' line in
      let nums = List.filter_map (fun s -> if s = "" then None else Some (n_of_int (int_of_string s))) parts in
      let out = judge_run nums in
      Buffer.clear buf;
      List.iteri (fun i x -> if i > 0 then Buffer.add_char buf ' '; Buffer.add_string buf (string_of_int (int_of_n x))) out;
      Buffer.add_char buf '\n';
      print_string (Buffer.contents buf)
    done
  with End_of_file -> ()
